// Package filt is the harness's own, independent reading of the documented
// Pub/Sub filter language: an AST, a printer with several surface variants and
// a reference evaluator.  It shares no code with the repository's filter
// package.
package filt

import (
	"strconv"
	"strings"
	"unicode"
)

type Kind int

const (
	Has    Kind = iota // attributes:NAME
	Eq                 // attributes.NAME = "V"
	Ne                 // attributes.NAME != "V"
	Prefix             // hasPrefix(attributes.NAME, "V")
	And                // Kids joined by AND (len>=2)
	Or                 // Kids joined by OR  (len>=2)
	Not                // NOT Kids[0] (Kids[0] is a basic expression or a parenthesised condition)
	Paren              // ( Kids[0] )  -- explicit parentheses around a condition
)

type Node struct {
	Kind  Kind
	Name  string
	Value string
	Kids  []*Node
}

// Tri is the three-valued result: the documented semantics leave one cell open
// (`!=` on an absent attribute), see DESIGN C07.
type Tri int

const (
	False Tri = iota
	True
	DontCare
)

// Eval is the reference semantics.  neAbsent selects the reading of
// `attributes.k != "v"` when k is absent: DontCare unless the caller pins it.
func (n *Node) Eval(attrs map[string]string, neAbsent Tri) Tri {
	switch n.Kind {
	case Has:
		_, ok := attrs[n.Name]
		return b(ok)
	case Eq:
		v, ok := attrs[n.Name]
		return b(ok && v == n.Value)
	case Ne:
		v, ok := attrs[n.Name]
		if !ok {
			return neAbsent
		}
		return b(v != n.Value)
	case Prefix:
		v, ok := attrs[n.Name]
		return b(ok && strings.HasPrefix(v, n.Value))
	case Not:
		switch n.Kids[0].Eval(attrs, neAbsent) {
		case True:
			return False
		case False:
			return True
		}
		return DontCare
	case Paren:
		return n.Kids[0].Eval(attrs, neAbsent)
	case And:
		res := True
		for _, k := range n.Kids {
			switch k.Eval(attrs, neAbsent) {
			case False:
				return False
			case DontCare:
				res = DontCare
			}
		}
		return res
	case Or:
		res := False
		for _, k := range n.Kids {
			switch k.Eval(attrs, neAbsent) {
			case True:
				return True
			case DontCare:
				res = DontCare
			}
		}
		return res
	}
	panic("bad node")
}

func b(x bool) Tri {
	if x {
		return True
	}
	return False
}

// Style selects a surface variant for Render.
type Style struct {
	Dash       bool   // "-" instead of "NOT "
	QuoteNames bool   // always quote attribute names
	Space      string // separator used around operators / after commas ("" = canonical single spaces where required)
	Tight      bool   // no optional whitespace at all (only the mandatory ones around AND/OR/NOT)
}

func isIdent(s string) bool {
	if s == "" {
		return false
	}
	for i, ch := range s {
		if !(ch == '_' || unicode.IsLetter(ch) || unicode.IsDigit(ch) && i > 0) {
			return false
		}
	}
	return true
}

func (st Style) name(s string) string {
	if st.QuoteNames || !isIdent(s) {
		return strconv.Quote(s)
	}
	return s
}

func (n *Node) Render(st Style) string {
	sp := " "
	if st.Space != "" {
		sp = st.Space
	}
	opt := sp
	if st.Tight {
		opt = ""
	}
	switch n.Kind {
	case Has:
		return "attributes" + opt + ":" + opt + st.name(n.Name)
	case Eq:
		return "attributes" + opt + "." + opt + st.name(n.Name) + opt + "=" + opt + strconv.Quote(n.Value)
	case Ne:
		return "attributes" + opt + "." + opt + st.name(n.Name) + opt + "!=" + opt + strconv.Quote(n.Value)
	case Prefix:
		return "hasPrefix" + opt + "(" + opt + "attributes" + opt + "." + opt + st.name(n.Name) + opt + "," + opt + strconv.Quote(n.Value) + opt + ")"
	case Not:
		if st.Dash {
			return "-" + opt + n.Kids[0].Render(st)
		}
		return "NOT" + sp + n.Kids[0].Render(st)
	case Paren:
		return "(" + opt + n.Kids[0].Render(st) + opt + ")"
	case And, Or:
		op := "AND"
		if n.Kind == Or {
			op = "OR"
		}
		parts := make([]string, len(n.Kids))
		for i, k := range n.Kids {
			parts[i] = k.Render(st)
		}
		return strings.Join(parts, sp+op+sp)
	}
	panic("bad node")
}

// Convenience constructors.
func H(name string) *Node     { return &Node{Kind: Has, Name: name} }
func E(name, v string) *Node  { return &Node{Kind: Eq, Name: name, Value: v} }
func NE(name, v string) *Node { return &Node{Kind: Ne, Name: name, Value: v} }
func P(name, v string) *Node  { return &Node{Kind: Prefix, Name: name, Value: v} }
func N(k *Node) *Node         { return &Node{Kind: Not, Kids: []*Node{k}} }
func Par(k *Node) *Node       { return &Node{Kind: Paren, Kids: []*Node{k}} }
func AndOf(ks ...*Node) *Node { return &Node{Kind: And, Kids: ks} }
func OrOf(ks ...*Node) *Node  { return &Node{Kind: Or, Kids: ks} }
