package filt

import (
	"strconv"
	"unicode"
	"unicode/utf8"
)

// A hand-written recogniser of the documented filter grammar:
//
//	cond  := term ( ("AND" term)+ | ("OR" term)+ )?
//	term  := ("NOT" | "-")? ( basic | "(" cond ")" )
//	basic := "attributes" ":" name
//	       | "attributes" "." name ("=" | "!=") string
//	       | "hasPrefix" "(" "attributes" "." name "," string ")"
//	name  := identifier | string
//
// Lexical structure: whitespace separates tokens and is otherwise ignored;
// identifiers are letter/underscore followed by letters, digits, underscores;
// strings are double-quoted with Go/C style escapes.

type tokKind int

const (
	tEOF tokKind = iota
	tIdent
	tString
	tPunct
	tBad
)

type token struct {
	kind tokKind
	text string // identifier text, unquoted string value, or the punctuation rune
	// gapBefore: whitespace preceded this token (used for the `! =` don't-care)
	gapBefore bool
}

func lex(s string) ([]token, bool) {
	var out []token
	i := 0
	for i < len(s) {
		gap := false
		for i < len(s) {
			c := s[i]
			if c == ' ' || c == '\t' || c == '\n' || c == '\r' {
				i++
				gap = true
				continue
			}
			break
		}
		if i >= len(s) {
			break
		}
		r, sz := utf8.DecodeRuneInString(s[i:])
		if r == utf8.RuneError && sz <= 1 {
			return nil, false
		}
		switch {
		case r == '_' || unicode.IsLetter(r):
			j := i + sz
			for j < len(s) {
				r2, sz2 := utf8.DecodeRuneInString(s[j:])
				if r2 == '_' || unicode.IsLetter(r2) || unicode.IsDigit(r2) {
					j += sz2
					continue
				}
				break
			}
			out = append(out, token{kind: tIdent, text: s[i:j], gapBefore: gap})
			i = j
		case r == '"':
			j := i + 1
			closed := false
			for j < len(s) {
				if s[j] == '\\' {
					j += 2
					continue
				}
				if s[j] == '\n' {
					return nil, false
				}
				if s[j] == '"' {
					closed = true
					j++
					break
				}
				j++
			}
			if !closed || j > len(s) {
				return nil, false
			}
			v, err := strconv.Unquote(s[i:j])
			if err != nil {
				return nil, false
			}
			out = append(out, token{kind: tString, text: v, gapBefore: gap})
			i = j
		case r == '(' || r == ')' || r == ':' || r == '.' || r == ',' || r == '=' || r == '!' || r == '-':
			out = append(out, token{kind: tPunct, text: string(r), gapBefore: gap})
			i += sz
		default:
			return nil, false
		}
	}
	return out, true
}

type parser struct {
	toks []token
	pos  int
	// SplitNe: a `!` and `=` separated by whitespace was used as an operator
	SplitNe bool
	// KeywordName: an unquoted attribute name spelled like a keyword was used
	KeywordName bool
}

func (p *parser) peek() token {
	if p.pos < len(p.toks) {
		return p.toks[p.pos]
	}
	return token{kind: tEOF}
}
func (p *parser) next() token { t := p.peek(); p.pos++; return t }
func (p *parser) isIdent(s string) bool {
	t := p.peek()
	return t.kind == tIdent && t.text == s
}
func (p *parser) isPunct(s string) bool {
	t := p.peek()
	return t.kind == tPunct && t.text == s
}

func isKeyword(s string) bool {
	switch s {
	case "AND", "OR", "NOT", "attributes", "hasPrefix":
		return true
	}
	return false
}

func (p *parser) name() (string, bool) {
	t := p.next()
	switch t.kind {
	case tIdent:
		if isKeyword(t.text) {
			p.KeywordName = true
		}
		return t.text, true
	case tString:
		return t.text, true
	}
	return "", false
}

func (p *parser) basic() (*Node, bool) {
	switch {
	case p.isIdent("attributes"):
		p.next()
		switch {
		case p.isPunct(":"):
			p.next()
			n, ok := p.name()
			if !ok {
				return nil, false
			}
			return H(n), true
		case p.isPunct("."):
			p.next()
			n, ok := p.name()
			if !ok {
				return nil, false
			}
			kind := Eq
			switch {
			case p.isPunct("="):
				p.next()
			case p.isPunct("!"):
				p.next()
				if !p.isPunct("=") {
					return nil, false
				}
				if p.peek().gapBefore {
					p.SplitNe = true
				}
				p.next()
				kind = Ne
			default:
				return nil, false
			}
			v := p.next()
			if v.kind != tString {
				return nil, false
			}
			return &Node{Kind: kind, Name: n, Value: v.text}, true
		}
		return nil, false
	case p.isIdent("hasPrefix"):
		p.next()
		if !p.isPunct("(") {
			return nil, false
		}
		p.next()
		if !p.isIdent("attributes") {
			return nil, false
		}
		p.next()
		if !p.isPunct(".") {
			return nil, false
		}
		p.next()
		n, ok := p.name()
		if !ok {
			return nil, false
		}
		if !p.isPunct(",") {
			return nil, false
		}
		p.next()
		v := p.next()
		if v.kind != tString {
			return nil, false
		}
		if !p.isPunct(")") {
			return nil, false
		}
		p.next()
		return P(n, v.text), true
	}
	return nil, false
}

func (p *parser) term() (*Node, bool) {
	neg := false
	if p.isIdent("NOT") || p.isPunct("-") {
		p.next()
		neg = true
	}
	var n *Node
	if p.isPunct("(") {
		p.next()
		c, ok := p.cond()
		if !ok || !p.isPunct(")") {
			return nil, false
		}
		p.next()
		n = Par(c)
	} else {
		b, ok := p.basic()
		if !ok {
			return nil, false
		}
		n = b
	}
	if neg {
		n = N(n)
	}
	return n, true
}

func (p *parser) cond() (*Node, bool) {
	first, ok := p.term()
	if !ok {
		return nil, false
	}
	var op string
	kids := []*Node{first}
	for p.isIdent("AND") || p.isIdent("OR") {
		cur := p.peek().text
		if op == "" {
			op = cur
		} else if op != cur {
			return nil, false // mixing AND and OR needs parentheses
		}
		p.next()
		t, ok := p.term()
		if !ok {
			return nil, false
		}
		kids = append(kids, t)
	}
	if op == "" {
		return first, true
	}
	if op == "AND" {
		return AndOf(kids...), true
	}
	return OrOf(kids...), true
}

// Verdict of the recogniser.
type Verdict struct {
	Accept bool
	AST    *Node
	// DontCare: acceptance hinges on a lexical detail the documentation does not
	// pin (whitespace inside `!=`, keyword-spelled unquoted attribute names).
	DontCare bool
}

func Recognise(s string) Verdict {
	toks, ok := lex(s)
	if !ok {
		return Verdict{}
	}
	p := &parser{toks: toks}
	n, ok := p.cond()
	if !ok || p.peek().kind != tEOF {
		// a failure might be due to treating a keyword as a name or not; such
		// inputs are decided conservatively below
		return Verdict{Accept: false, DontCare: hasKeywordAfterAttr(toks)}
	}
	return Verdict{Accept: true, AST: n, DontCare: p.SplitNe || p.KeywordName}
}

// hasKeywordAfterAttr: an identifier spelled like a keyword directly follows
// `attributes:` / `attributes.` – whether that is a name or a keyword is open.
func hasKeywordAfterAttr(toks []token) bool {
	for i := 2; i < len(toks); i++ {
		if toks[i].kind == tIdent && isKeyword(toks[i].text) && toks[i-1].kind == tPunct && (toks[i-1].text == ":" || toks[i-1].text == ".") && toks[i-2].kind == tIdent && toks[i-2].text == "attributes" {
			return true
		}
	}
	return false
}
