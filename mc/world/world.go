// Package world is the shared harness: the real repository code (gRPC handler
// objects, actions, maintenance jobs) on a real SQLite database opened through
// the vsql seam driver, with deterministic UUIDs and – when used inside a
// testing/synctest bubble – virtual time.
package world

import (
	"context"
	"crypto/sha256"
	"database/sql"
	"encoding/binary"
	"fmt"
	"os"
	"path/filepath"
	"sort"
	"strings"
	"sync"
	"time"

	"entgo.io/ent/dialect"
	entsql "entgo.io/ent/dialect/sql"
	"github.com/google/uuid"
	"github.com/rs/zerolog"

	"go.6river.tech/mmmbbb/actions"
	"go.6river.tech/mmmbbb/db"
	"go.6river.tech/mmmbbb/ent"
	_ "go.6river.tech/mmmbbb/ent/runtime"
	"go.6river.tech/mmmbbb/grpc/pubsubpb"
	"go.6river.tech/mmmbbb/services"

	"verif/mc/vsql"
)

func init() {
	// timestamps are compared as text by SQLite: one zone only
	time.Local = time.UTC
	zerolog.SetGlobalLevel(zerolog.Disabled)
}

// Tables in foreign-key order (parents first).
var Tables = []string{"topics", "subscriptions", "snapshots", "messages", "deliveries"}

type World struct {
	Dir    string
	DB     *sql.DB
	Client *ent.Client
	Pub    pubsubpb.PublisherServer
	Sub    pubsubpb.SubscriberServer
	Jobs   map[string]services.VerifJob

	// Shift: logical time = virtual (bubble) time - Shift.  Restoring an earlier
	// state moves Shift forward instead of moving the clock backward.
	Shift time.Duration

	ids *idGen

	// statement log of the most recent operation (reset by ResetLog)
	logMu sync.Mutex
	Log   []vsql.Point
	// SeqTick: sleep 1µs before every statement so that consecutive time.Now()
	// readings inside one request strictly increase, as on real hardware.
	SeqTick bool
	// Extra hook consulted after logging (fault injection / scheduler gates)
	Extra vsql.Hook
	// LogOn: keep the statement log (only the fault-enumeration check needs it)
	LogOn bool
	// Budget: when > 0 it is decremented per statement; reaching zero calls
	// OnBudget once (spin detection: code that polls the database in a loop
	// never becomes quiescent under frozen virtual time)
	Budget   int64
	OnBudget func()
	// SerialTx: make SQLite's own serialisation of (BEGIN IMMEDIATE) transactions
	// visible to the bubble.  A second transaction otherwise spins in SQLite's busy
	// handler (real time, inside cgo) while the first sleeps its SeqTick in
	// virtual time, and virtual time cannot move while a goroutine is running.
	SerialTx bool
	txTok    chan struct{}
}

// idGen is a deterministic io.Reader for uuid.SetRand: the n-th UUID is a hash
// of n, so ids are a function of the history and not ordered by creation.
type idGen struct {
	mu sync.Mutex
	n  uint64
}

func (g *idGen) Read(p []byte) (int, error) {
	g.mu.Lock()
	defer g.mu.Unlock()
	off := 0
	for off < len(p) {
		g.n++
		var b [8]byte
		binary.BigEndian.PutUint64(b[:], g.n)
		h := sha256.Sum256(b[:])
		off += copy(p[off:], h[:])
	}
	return len(p), nil
}

// Open creates a fresh database.  Must be called inside the synctest bubble
// when one is used (database/sql owns goroutines and channels).
func Open() (*World, error) {
	base := "/dev/shm"
	if d := os.Getenv("VERIF_SHM"); d != "" {
		base = d
	}
	if st, err := os.Stat(base); err != nil || !st.IsDir() {
		base = os.TempDir()
	}
	dir, err := os.MkdirTemp(base, "verif-mc-")
	if err != nil {
		return nil, err
	}
	w := &World{Dir: dir, ids: &idGen{}, SeqTick: true, txTok: make(chan struct{}, 1)}
	uuid.SetRand(w.ids)
	vsql.SetHook(w.hook)
	dsn := db.SQLiteDSN(filepath.Join(dir, "mc"), true, false)
	w.DB, err = sql.Open(vsql.DriverName, dsn)
	if err != nil {
		return nil, err
	}
	w.DB.SetMaxOpenConns(10)
	w.DB.SetMaxIdleConns(10)
	w.Client = ent.NewClient(ent.Driver(entsql.OpenDB(dialect.SQLite, w.DB)))
	if err := db.MigrateUpEnt(context.Background(), w.Client.Schema); err != nil {
		return nil, fmt.Errorf("migrate: %w", err)
	}
	w.Pub = services.VerifPublisher(w.Client)
	w.Sub = services.VerifSubscriber(w.Client)
	w.Jobs = map[string]services.VerifJob{}
	for _, j := range services.VerifPruneJobs() {
		w.Jobs[j.Name] = j
	}
	return w, nil
}

func (w *World) Close() {
	actions.WakeAllInternal()
	vsql.SetHook(nil)
	if w.Client != nil {
		w.Client.Close()
	}
	os.RemoveAll(w.Dir)
}

func (w *World) hook(p vsql.Point) error {
	w.logMu.Lock()
	if w.LogOn {
		w.Log = append(w.Log, p)
	}
	extra := w.Extra
	tick := w.SeqTick
	serial := w.SerialTx
	var fire func()
	if w.Budget > 0 {
		w.Budget--
		if w.Budget == 0 {
			fire = w.OnBudget
		}
	}
	w.logMu.Unlock()
	if serial || len(w.txTok) > 0 {
		switch {
		case serial && (p.Kind == vsql.Begin || p.Kind == vsql.Stmt && !p.InTx):
			w.txTok <- struct{}{}
		case p.Kind == vsql.Committed || p.Kind == vsql.RolledBack || p.Kind == vsql.BeginFailed || p.Kind == vsql.StmtDone && !p.InTx:
			select {
			case <-w.txTok:
			default:
			}
		}
	}
	if tick && (p.Kind == vsql.Stmt || p.Kind == vsql.Begin || p.Kind == vsql.Commit) {
		// (not a whole number of microseconds: timestamps must carry nanoseconds
		// like real ones do, or code that rounds them would go unnoticed)
		time.Sleep(1001 * time.Nanosecond)
	}
	// (after the tick, never before: once the request is cancelled database/sql's
	// watcher blocks on a lock this statement holds, and virtual time cannot move
	// while a goroutine waits for a mutex)
	if fire != nil {
		fire()
	}
	if extra != nil {
		return extra(p)
	}
	return nil
}

func (w *World) ResetLog() {
	w.logMu.Lock()
	w.Log = w.Log[:0]
	w.logMu.Unlock()
}

// SetBudget arms the statement budget (0 disarms it).
func (w *World) SetBudget(n int64, f func()) {
	w.logMu.Lock()
	w.Budget, w.OnBudget = n, f
	w.logMu.Unlock()
}

func (w *World) SetSerialTx(on bool) {
	w.logMu.Lock()
	w.SerialTx = on
	w.logMu.Unlock()
}

func (w *World) SetExtra(h vsql.Hook) {
	w.logMu.Lock()
	w.Extra = h
	w.logMu.Unlock()
}

// Now is the logical time.
func (w *World) Now() time.Time { return time.Now().Add(-w.Shift) }

// ToLogical converts a timestamp produced by the system under test.
func (w *World) ToLogical(t time.Time) time.Time { return t.Add(-w.Shift) }

// ToVirtual converts a logical time into what the system must be given.
func (w *World) ToVirtual(t time.Time) time.Time { return t.Add(w.Shift) }

// Tick advances (virtual and logical) time.
func (w *World) Tick(d time.Duration) {
	if d > 0 {
		time.Sleep(d)
	}
}

// TickTo advances to the logical instant t (no-op if in the past).
func (w *World) TickTo(t time.Time) { w.Tick(t.Sub(w.Now())) }

// ---------------------------------------------------------------------------
// dump / restore

// Row is one table row; time columns are held as LOGICAL times.
type Row []any

type Snapshot struct {
	Cols   map[string][]string
	Rows   map[string][]Row
	IDs    uint64 // id generator position
	TakenL time.Time
}

// Dump reads all five tables in rowid order.
func (w *World) Dump() (*Snapshot, error) {
	tick := w.SeqTick
	w.SeqTick = false
	defer func() { w.SeqTick = tick }()
	s, err := DumpDB(w.DB, w.Shift)
	if err != nil {
		return nil, err
	}
	s.TakenL = w.Now()
	w.ids.mu.Lock()
	s.IDs = w.ids.n
	w.ids.mu.Unlock()
	return s, nil
}

// DumpDB reads the five tables through any connection to the database file.
func DumpDB(db *sql.DB, shift time.Duration) (*Snapshot, error) {
	s := &Snapshot{Cols: map[string][]string{}, Rows: map[string][]Row{}, TakenL: time.Now().Add(-shift)}
	for _, t := range Tables {
		rows, err := db.Query("SELECT * FROM " + t + " ORDER BY rowid")
		if err != nil {
			return nil, err
		}
		cols, err := rows.Columns()
		if err != nil {
			rows.Close()
			return nil, err
		}
		s.Cols[t] = cols
		for rows.Next() {
			vals := make([]any, len(cols))
			ptrs := make([]any, len(cols))
			for i := range vals {
				ptrs[i] = &vals[i]
			}
			if err := rows.Scan(ptrs...); err != nil {
				rows.Close()
				return nil, err
			}
			for i, v := range vals {
				switch x := v.(type) {
				case time.Time:
					vals[i] = x.UTC().Add(-shift)
				case []byte:
					vals[i] = append([]byte(nil), x...)
				}
			}
			s.Rows[t] = append(s.Rows[t], Row(vals))
		}
		if err := rows.Err(); err != nil {
			rows.Close()
			return nil, err
		}
		rows.Close()
	}
	return s, nil
}

// Restore replaces the database contents with the snapshot and moves Shift so
// that the logical clock reads what it read when the snapshot was taken.
func (w *World) Restore(s *Snapshot) error {
	tick := w.SeqTick
	w.SeqTick = false
	defer func() { w.SeqTick = tick }()
	actions.WakeAllInternal()
	w.Shift = time.Now().Sub(s.TakenL)
	w.ids.mu.Lock()
	w.ids.n = s.IDs
	w.ids.mu.Unlock()
	return RestoreDB(w.DB, s, w.Shift)
}

// RestoreDB writes the snapshot through any connection to the database file.
func RestoreDB(db *sql.DB, s *Snapshot, shift time.Duration) error {
	ctx := context.Background()
	conn, err := db.Conn(ctx)
	if err != nil {
		return err
	}
	defer conn.Close()
	tx, err := conn.BeginTx(ctx, nil)
	if err != nil {
		return err
	}
	defer tx.Rollback()
	if _, err := tx.Exec("PRAGMA defer_foreign_keys=ON"); err != nil {
		return err
	}
	for i := len(Tables) - 1; i >= 0; i-- {
		if _, err := tx.Exec("DELETE FROM " + Tables[i]); err != nil {
			return err
		}
	}
	for _, t := range Tables {
		cols := s.Cols[t]
		if len(s.Rows[t]) == 0 {
			continue
		}
		q := "INSERT INTO " + t + " (" + strings.Join(quoteAll(cols), ",") + ") VALUES (" +
			strings.TrimSuffix(strings.Repeat("?,", len(cols)), ",") + ")"
		st, err := tx.Prepare(q)
		if err != nil {
			return err
		}
		for _, r := range s.Rows[t] {
			args := make([]any, len(r))
			for i, v := range r {
				if tv, ok := v.(time.Time); ok {
					args[i] = tv.Add(shift)
				} else {
					args[i] = v
				}
			}
			if _, err := st.Exec(args...); err != nil {
				st.Close()
				return fmt.Errorf("restore %s: %w", t, err)
			}
		}
		st.Close()
	}
	return tx.Commit()
}

func quoteAll(cols []string) []string {
	out := make([]string, len(cols))
	for i, c := range cols {
		out[i] = `"` + c + `"`
	}
	return out
}

// Col returns the index of a column in a table of the snapshot (-1 if absent).
func (s *Snapshot) Col(table, col string) int {
	for i, c := range s.Cols[table] {
		if c == col {
			return i
		}
	}
	return -1
}

// Canon renders the snapshot as text with every time relative to TakenL
// (rounded to `bucket`) and with UUIDs of the listed tables renamed in order of
// first appearance.  Two snapshots with equal Canon agree on everything the
// implementation can test as long as later clock moves stay ≥ bucket away from
// every deadline (DESIGN §2).
func (s *Snapshot) Canon(bucket time.Duration, renameIDs bool) string {
	ren := map[string]string{}
	name := func(v any) string {
		var k string
		switch x := v.(type) {
		case []byte:
			k = string(x)
		case string:
			k = x
		default:
			return fmt.Sprint(v)
		}
		if !renameIDs {
			return k
		}
		if _, err := uuid.Parse(k); err != nil {
			return k
		}
		if n, ok := ren[k]; ok {
			return n
		}
		n := fmt.Sprintf("#%d", len(ren))
		ren[k] = n
		return n
	}
	var b strings.Builder
	for _, t := range Tables {
		fmt.Fprintf(&b, "[%s]\n", t)
		lines := make([]string, 0, len(s.Rows[t]))
		for _, r := range s.Rows[t] {
			var lb strings.Builder
			for i, v := range r {
				if i > 0 {
					lb.WriteByte('|')
				}
				switch x := v.(type) {
				case nil:
					lb.WriteString("∅")
				case time.Time:
					d := x.Sub(s.TakenL)
					if bucket > 0 {
						d = d.Round(bucket)
					}
					lb.WriteString(d.String())
				default:
					lb.WriteString(name(x))
				}
			}
			lines = append(lines, lb.String())
		}
		// rows stay in rowid order: it is observable through unordered LIMIT queries
		b.WriteString(strings.Join(lines, "\n"))
		b.WriteByte('\n')
	}
	return b.String()
}

// Equal compares two snapshots exactly (times to the nanosecond, ids verbatim),
// ignoring nothing.  Used by the all-or-nothing checks.
func (s *Snapshot) Diff(o *Snapshot) string {
	var out []string
	for _, t := range Tables {
		a, b := s.Rows[t], o.Rows[t]
		am := map[string]int{}
		for _, r := range a {
			am[rowKey(r)]++
		}
		for _, r := range b {
			k := rowKey(r)
			if am[k] > 0 {
				am[k]--
			} else {
				out = append(out, "+"+t+": "+k)
			}
		}
		for k, n := range am {
			for ; n > 0; n-- {
				out = append(out, "-"+t+": "+k)
			}
		}
	}
	sort.Strings(out)
	return strings.Join(out, "\n")
}

func rowKey(r Row) string {
	var lb strings.Builder
	for i, v := range r {
		if i > 0 {
			lb.WriteByte('|')
		}
		switch x := v.(type) {
		case nil:
			lb.WriteString("∅")
		case time.Time:
			lb.WriteString(x.UTC().Format(time.RFC3339Nano))
		case []byte:
			lb.WriteString(string(x))
		default:
			fmt.Fprint(&lb, x)
		}
	}
	return lb.String()
}

// DiffIgnoring is Diff with some columns blanked ("table.column").
func (s *Snapshot) DiffIgnoring(o *Snapshot, ignore ...string) string {
	mask := func(x *Snapshot) *Snapshot {
		c := &Snapshot{Cols: x.Cols, Rows: map[string][]Row{}, TakenL: x.TakenL}
		for t, rows := range x.Rows {
			for _, r := range rows {
				rr := append(Row(nil), r...)
				for _, ig := range ignore {
					if strings.HasPrefix(ig, t+".") {
						if i := x.Col(t, strings.TrimPrefix(ig, t+".")); i >= 0 {
							rr[i] = "*"
						}
					}
				}
				c.Rows[t] = append(c.Rows[t], rr)
			}
		}
		return c
	}
	return mask(s).Diff(mask(o))
}

// EquivModuloIDs compares two snapshots row by row (rowid order) after renaming
// UUIDs in order of first appearance; times are compared relative to each
// snapshot's own TakenL with a tolerance.  Returns "" if equivalent.
func (s *Snapshot) EquivModuloIDs(o *Snapshot, tol time.Duration) string {
	rs, ro := map[string]string{}, map[string]string{}
	ren := func(m map[string]string, v any) (string, bool) {
		var k string
		switch x := v.(type) {
		case []byte:
			k = string(x)
		case string:
			k = x
		default:
			return "", false
		}
		if _, err := uuid.Parse(k); err != nil {
			return k, true
		}
		if n, ok := m[k]; ok {
			return n, true
		}
		n := fmt.Sprintf("#%d", len(m))
		m[k] = n
		return n, true
	}
	for _, t := range Tables {
		a, b := s.Rows[t], o.Rows[t]
		if len(a) != len(b) {
			return fmt.Sprintf("%s: %d rows vs %d rows", t, len(a), len(b))
		}
		for i := range a {
			for c := range a[i] {
				va, vb := a[i][c], b[i][c]
				ta, isTa := va.(time.Time)
				tb, isTb := vb.(time.Time)
				if isTa || isTb {
					if isTa != isTb {
						return fmt.Sprintf("%s row %d col %s: %v vs %v", t, i, s.Cols[t][c], va, vb)
					}
					d := ta.Sub(s.TakenL) - tb.Sub(o.TakenL)
					if d < -tol || d > tol {
						return fmt.Sprintf("%s row %d col %s: %v vs %v (relative to the end of the operation)", t, i, s.Cols[t][c], ta.Sub(s.TakenL), tb.Sub(o.TakenL))
					}
					continue
				}
				sa, oka := ren(rs, va)
				sb, okb := ren(ro, vb)
				if oka && okb {
					if strings.Contains(sa, "-") && len(sa) > 30 || strings.HasPrefix(sa, "[") {
						// JSON list of uuids (snapshot acked ids): compare lengths only
						if len(sa) != len(sb) {
							return fmt.Sprintf("%s row %d col %s: %v vs %v", t, i, s.Cols[t][c], sa, sb)
						}
						continue
					}
					if sa != sb {
						return fmt.Sprintf("%s row %d col %s: %v vs %v", t, i, s.Cols[t][c], sa, sb)
					}
					continue
				}
				if fmt.Sprint(va) != fmt.Sprint(vb) {
					return fmt.Sprintf("%s row %d col %s: %v vs %v", t, i, s.Cols[t][c], va, vb)
				}
			}
		}
	}
	return ""
}
