// Package shimsync replaces "sync" in repository files that the overlay
// rewrites for the scheduler checks.  Lock acquisitions are scheduler gates
// (enabled only while the lock is logically free); everything else passes
// through to the real package.  Without a controlled execution the gates are
// no-ops and the types behave exactly like their originals.
package shimsync

import (
	"sync"
	"sync/atomic"

	"verif/mc/sched"
)

type Mutex struct {
	mu   sync.Mutex
	held atomic.Bool
}

func (m *Mutex) Lock() {
	sched.Gate("", "lock", func() bool { return !m.held.Load() })
	m.mu.Lock()
	m.held.Store(true)
}

func (m *Mutex) TryLock() bool {
	sched.Gate("", "trylock", nil)
	if m.mu.TryLock() {
		m.held.Store(true)
		return true
	}
	return false
}

func (m *Mutex) Unlock() {
	m.held.Store(false)
	m.mu.Unlock()
	// yield right after releasing: what the owner does next (typically: start
	// waiting) can be overtaken by whoever takes the lock now
	sched.Gate("", "unlocked", nil)
}

type RWMutex struct {
	mu      sync.RWMutex
	writer  atomic.Bool
	readers atomic.Int32
}

func (m *RWMutex) Lock() {
	sched.Gate("", "wlock", func() bool { return !m.writer.Load() && m.readers.Load() == 0 })
	m.mu.Lock()
	m.writer.Store(true)
}

func (m *RWMutex) Unlock() {
	m.writer.Store(false)
	m.mu.Unlock()
}

func (m *RWMutex) RLock() {
	sched.Gate("", "rlock", func() bool { return !m.writer.Load() })
	m.mu.RLock()
	m.readers.Add(1)
}

func (m *RWMutex) RUnlock() {
	m.readers.Add(-1)
	m.mu.RUnlock()
}

func (m *RWMutex) TryLock() bool {
	sched.Gate("", "trywlock", nil)
	if m.mu.TryLock() {
		m.writer.Store(true)
		return true
	}
	return false
}

func (m *RWMutex) TryRLock() bool {
	sched.Gate("", "tryrlock", nil)
	if m.mu.TryRLock() {
		m.readers.Add(1)
		return true
	}
	return false
}

func (m *RWMutex) RLocker() sync.Locker { return (*rlocker)(m) }

type rlocker RWMutex

func (r *rlocker) Lock()   { (*RWMutex)(r).RLock() }
func (r *rlocker) Unlock() { (*RWMutex)(r).RUnlock() }

// pass-through types
type (
	WaitGroup = sync.WaitGroup
	Once      = sync.Once
	Cond      = sync.Cond
	Pool      = sync.Pool
	Map       = sync.Map
	Locker    = sync.Locker
)

func NewCond(l Locker) *Cond { return sync.NewCond(l) }

func OnceFunc(f func()) func()                                 { return sync.OnceFunc(f) }
func OnceValue[T any](f func() T) func() T                     { return sync.OnceValue(f) }
func OnceValues[T1, T2 any](f func() (T1, T2)) func() (T1, T2) { return sync.OnceValues(f) }

// Go is what a rewritten `go f()` statement calls: the new goroutine becomes a
// scheduler thread (parked at its start until released).
func Go(f func()) { sched.Spawn(f) }
