// Package shimatomic replaces "sync/atomic" in rewritten repository files:
// every function-style atomic operation is a scheduler gate followed by the
// real operation.  Typed atomics pass through.
package shimatomic

import (
	"sync/atomic"
	"unsafe"

	"verif/mc/sched"
)

func g(kind string) { sched.Gate("", kind, nil) }

func AddInt32(addr *int32, delta int32) int32 { g("atomic.add"); return atomic.AddInt32(addr, delta) }
func AddInt64(addr *int64, delta int64) int64 { g("atomic.add"); return atomic.AddInt64(addr, delta) }
func AddUint32(addr *uint32, delta uint32) uint32 {
	g("atomic.add")
	return atomic.AddUint32(addr, delta)
}
func AddUint64(addr *uint64, delta uint64) uint64 {
	g("atomic.add")
	return atomic.AddUint64(addr, delta)
}
func AddUintptr(addr *uintptr, delta uintptr) uintptr {
	g("atomic.add")
	return atomic.AddUintptr(addr, delta)
}

func LoadInt32(addr *int32) int32       { g("atomic.load"); return atomic.LoadInt32(addr) }
func LoadInt64(addr *int64) int64       { g("atomic.load"); return atomic.LoadInt64(addr) }
func LoadUint32(addr *uint32) uint32    { g("atomic.load"); return atomic.LoadUint32(addr) }
func LoadUint64(addr *uint64) uint64    { g("atomic.load"); return atomic.LoadUint64(addr) }
func LoadUintptr(addr *uintptr) uintptr { g("atomic.load"); return atomic.LoadUintptr(addr) }
func LoadPointer(addr *unsafe.Pointer) unsafe.Pointer {
	g("atomic.load")
	return atomic.LoadPointer(addr)
}

func StoreInt32(addr *int32, v int32)       { g("atomic.store"); atomic.StoreInt32(addr, v) }
func StoreInt64(addr *int64, v int64)       { g("atomic.store"); atomic.StoreInt64(addr, v) }
func StoreUint32(addr *uint32, v uint32)    { g("atomic.store"); atomic.StoreUint32(addr, v) }
func StoreUint64(addr *uint64, v uint64)    { g("atomic.store"); atomic.StoreUint64(addr, v) }
func StoreUintptr(addr *uintptr, v uintptr) { g("atomic.store"); atomic.StoreUintptr(addr, v) }
func StorePointer(addr *unsafe.Pointer, v unsafe.Pointer) {
	g("atomic.store")
	atomic.StorePointer(addr, v)
}

func SwapInt32(addr *int32, v int32) int32     { g("atomic.swap"); return atomic.SwapInt32(addr, v) }
func SwapInt64(addr *int64, v int64) int64     { g("atomic.swap"); return atomic.SwapInt64(addr, v) }
func SwapUint32(addr *uint32, v uint32) uint32 { g("atomic.swap"); return atomic.SwapUint32(addr, v) }
func SwapUint64(addr *uint64, v uint64) uint64 { g("atomic.swap"); return atomic.SwapUint64(addr, v) }

func CompareAndSwapInt32(addr *int32, o, n int32) bool {
	g("atomic.cas")
	return atomic.CompareAndSwapInt32(addr, o, n)
}
func CompareAndSwapInt64(addr *int64, o, n int64) bool {
	g("atomic.cas")
	return atomic.CompareAndSwapInt64(addr, o, n)
}
func CompareAndSwapUint32(addr *uint32, o, n uint32) bool {
	g("atomic.cas")
	return atomic.CompareAndSwapUint32(addr, o, n)
}
func CompareAndSwapUint64(addr *uint64, o, n uint64) bool {
	g("atomic.cas")
	return atomic.CompareAndSwapUint64(addr, o, n)
}

type (
	Bool    = atomic.Bool
	Int32   = atomic.Int32
	Int64   = atomic.Int64
	Uint32  = atomic.Uint32
	Uint64  = atomic.Uint64
	Uintptr = atomic.Uintptr
	Value   = atomic.Value
)

type Pointer[T any] = atomic.Pointer[T]
