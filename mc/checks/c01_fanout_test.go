//go:build verif

package checks

import (
	"context"
	"fmt"
	"testing"
	"testing/synctest"

	"go.6river.tech/mmmbbb/grpc/pubsubpb"

	"verif/mc/report"
	"verif/mc/world"
)

// Fan-out size: every number of subscriptions 1..N attached to one topic (every
// 7th with a filter the messages do not satisfy, so the number of receivers
// differs from the number of subscriptions).  Subscription n is created, then a
// request with one message (every 10th request: three) is published; right after
// each publish the deliveries table must hold exactly one row per (message,
// receiver), and at the end every subscription must pull exactly the messages
// published while it was attached.
func init() {
	addExtra("C01", func(t *testing.T, tier string) (map[string]any, []report.Viol, error) {
		N := 260
		if tier == "thorough" {
			N = 1100
		}
		var viols []report.Viol
		var ferr error
		published, rowsChecked, pulled := 0, 0, 0
		add := func(rule, text string, trace ...string) {
			if len(viols) < 12 {
				viols = append(viols, report.Viol{Property: "C01", Check: "C01/fan-out-size", Rule: rule, Text: text, Trace: trace})
			}
		}
		synctest.Test(t, func(t *testing.T) {
			w, err := world.Open()
			if err != nil {
				ferr = err
				return
			}
			defer w.Close()
			w.SeqTick = false
			ctx := context.Background()
			topic := "projects/p/topics/fan"
			if _, err := w.Pub.CreateTopic(ctx, &pubsubpb.Topic{Name: topic}); err != nil {
				ferr = err
				return
			}
			receives := func(n int) bool { return n%7 != 0 }
			first := map[int]int{} // subscription -> number of the first message it must get
			next := 0              // messages published so far
			for n := 1; n <= N; n++ {
				sub := &pubsubpb.Subscription{Name: fmt.Sprintf("projects/p/subscriptions/f%04d", n), Topic: topic}
				if !receives(n) {
					sub.Filter = `attributes:never`
				}
				if _, err := w.Sub.CreateSubscription(ctx, sub); err != nil {
					ferr = err
					return
				}
				first[n] = next
				req := &pubsubpb.PublishRequest{Topic: topic}
				k := 1
				if n%10 == 0 {
					k = 3
				}
				for i := 0; i < k; i++ {
					req.Messages = append(req.Messages, &pubsubpb.PubsubMessage{Data: []byte(fmt.Sprintf(`{"m":%d}`, next+i))})
				}
				resp, err := w.Pub.Publish(ctx, req)
				if err != nil || len(resp.MessageIds) != k {
					add("pub-failed", fmt.Sprintf("Publish of %d messages to a topic with %d subscriptions failed: %v", k, n, err), fmt.Sprint(n))
					return
				}
				next += k
				published += k
				want := 0
				for j := 1; j <= n; j++ {
					if receives(j) {
						want++
					}
				}
				for _, id := range resp.MessageIds {
					var got int
					if err := w.DB.QueryRow("SELECT count(DISTINCT subscription_id) FROM deliveries WHERE message_id=?", id).Scan(&got); err != nil {
						ferr = err
						return
					}
					rowsChecked++
					if got != want {
						add("lost", fmt.Sprintf("a message published to a topic with %d subscriptions (%d of which it satisfies) has deliveries on %d of them; Publish reported success", n, want, got), fmt.Sprint(n), id)
					}
				}
				if len(viols) > 0 {
					return
				}
			}
			for n := 1; n <= N; n++ {
				got := map[string]bool{}
				for round := 0; round < 20; round++ {
					r, err := w.Sub.Pull(ctx, &pubsubpb.PullRequest{Subscription: fmt.Sprintf("projects/p/subscriptions/f%04d", n), MaxMessages: 1000, ReturnImmediately: true})
					if err != nil {
						add("pull-failed", fmt.Sprintf("Pull on subscription %d of %d failed: %v", n, N, err), fmt.Sprint(n))
						return
					}
					if len(r.ReceivedMessages) == 0 {
						break
					}
					var ids []string
					for _, m := range r.ReceivedMessages {
						got[string(m.Message.Data)] = true
						ids = append(ids, m.AckId)
						pulled++
					}
					if _, err := w.Sub.Acknowledge(ctx, &pubsubpb.AcknowledgeRequest{Subscription: fmt.Sprintf("projects/p/subscriptions/f%04d", n), AckIds: ids}); err != nil {
						ferr = err
						return
					}
				}
				want := 0
				if receives(n) {
					want = next - first[n]
					for m := first[n]; m < next; m++ {
						if !got[fmt.Sprintf(`{"m":%d}`, m)] {
							add("lost", fmt.Sprintf("subscription %d of %d never received message %d, published while it was attached (it pulled %d of %d)", n, N, m, len(got), want), fmt.Sprint(n), fmt.Sprint(m))
							break
						}
					}
				}
				if len(got) > want {
					add("deliver-foreign", fmt.Sprintf("subscription %d of %d pulled %d messages, %d were published to it", n, N, len(got), want), fmt.Sprint(n))
				}
				if len(viols) > 0 {
					return
				}
			}
		})
		return map[string]any{"fan_out_sizes_1_to": N, "fan_out_messages_published": published, "fan_out_delivery_row_counts_checked": rowsChecked, "fan_out_messages_pulled": pulled}, viols, ferr
	})
}
