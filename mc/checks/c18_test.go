//go:build verifshim

package checks

import (
	"errors"
	"fmt"
	"os"
	"sort"
	"strings"
	"testing"
	"testing/synctest"
	"time"

	"google.golang.org/protobuf/types/known/fieldmaskpb"

	"go.6river.tech/mmmbbb/faults"
	"go.6river.tech/mmmbbb/grpc/pubsubpb"

	"verif/mc/report"
	"verif/mc/sched"
)

func init() { otherChecks["C18"] = runC18 }

type c18Desc struct {
	op     string
	params map[string]string
	count  int64
}
type c18Call struct {
	op     string
	params map[string]string
	times  int
}
type c18Scen struct {
	name   string
	descs  []c18Desc
	calls  []c18Call
	reader bool // a Current() reader thread
	adder  *c18Desc
	adder2 *c18Desc // a second concurrent Add (same or another operation)
	bound  int
}

var errC18 = errors.New("injected")

func (d c18Desc) matches(c c18Call) bool {
	if d.op != c.op {
		return false
	}
	for k, v := range d.params {
		if w, ok := c.params[k]; !ok || w != v {
			return false
		}
	}
	return true
}

func c18Scenarios(tier string) []c18Scen {
	a1 := map[string]string{"a": "1"}
	a1b2 := map[string]string{"a": "1", "b": "2"}
	a2 := map[string]string{"a": "2"}
	b := 2
	if tier == "thorough" {
		b = 3
	}
	s := []c18Scen{
		{name: "2 callers, N=1", descs: []c18Desc{{"op", nil, 1}}, calls: []c18Call{{"op", nil, 1}, {"op", a1, 1}}, bound: -1},
		{name: "3 callers, N=1", descs: []c18Desc{{"op", nil, 1}}, calls: []c18Call{{"op", nil, 1}, {"op", nil, 1}, {"op", nil, 1}}, bound: b},
		{name: "3 callers, N=2", descs: []c18Desc{{"op", a1, 2}}, calls: []c18Call{{"op", a1, 1}, {"op", a1b2, 1}, {"op", a1, 1}}, bound: b},
		{name: "2 callers twice, N=3", descs: []c18Desc{{"op", nil, 3}}, calls: []c18Call{{"op", nil, 2}, {"op", a1, 2}}, bound: b},
		{name: "matching + non-matching callers, N=1", descs: []c18Desc{{"op", a1b2, 1}}, calls: []c18Call{{"op", a1b2, 1}, {"op", a1, 1}, {"op", a2, 1}, {"other", a1b2, 1}}, bound: b},
		{name: "two overlapping descriptions N=1+1, 3 callers", descs: []c18Desc{{"op", a1, 1}, {"op", nil, 1}}, calls: []c18Call{{"op", a1b2, 1}, {"op", a1, 1}, {"op", a1, 1}}, bound: b},
		// the catch-all FIRST: once it is exhausted (and not yet pruned) it must not
		// shadow the overlapping description behind it
		{name: "catch-all first, overlapping description behind it, 3 callers", descs: []c18Desc{{"op", nil, 1}, {"op", a1, 1}}, calls: []c18Call{{"op", a1b2, 1}, {"op", a1, 1}, {"op", a1, 1}}, bound: b},
		{name: "reader + 2 callers, N=1", descs: []c18Desc{{"op", nil, 1}}, calls: []c18Call{{"op", nil, 1}, {"op", nil, 1}}, reader: true, bound: b},
		// two injections at the same time (same operation: one list is appended to twice)
		{name: "two concurrent Adds of one operation + 1 caller", descs: []c18Desc{{"op", nil, 1}}, calls: []c18Call{{"op", nil, 1}}, adder: &c18Desc{"op", a2, 1}, adder2: &c18Desc{"op", map[string]string{"a": "3"}, 2}, bound: -1},
		{name: "two concurrent Adds of a fresh operation", descs: []c18Desc{{"op", nil, 1}}, calls: []c18Call{{"op", nil, 1}}, adder: &c18Desc{"new", a2, 1}, adder2: &c18Desc{"new", a1, 1}, bound: -1},
		{name: "Add racing with 2 callers", descs: []c18Desc{{"op", nil, 1}}, calls: []c18Call{{"op", nil, 1}, {"op", nil, 1}}, adder: &c18Desc{"op", a2, 1}, bound: b},
	}
	if tier == "thorough" {
		s = append(s, c18Scen{name: "4 callers, N=2", descs: []c18Desc{{"op", nil, 2}}, calls: []c18Call{{"op", nil, 1}, {"op", nil, 1}, {"op", nil, 1}, {"op", nil, 1}}, bound: 2})
	}
	return s
}

func runC18(t *testing.T, tier string) int {
	t0 := time.Now()
	sink := &violSink{}
	scens := c18Scenarios(tier)
	if only := os.Getenv("VERIF_SCEN"); only != "" {
		var f []c18Scen
		for _, s := range scens {
			if s.name == only {
				f = append(f, s)
			}
		}
		scens = f
	}
	totalExec, totalDec := 0, 0
	complete := true
	perScen := map[string]any{}
	var samples []any
	deadline := report.RealNow().Add(schedBudget(tier))
	synctest.Test(t, func(t *testing.T) {
		for _, sc := range scens {
			sc := sc
			exec := func(prefix []int, expect []sched.Point) ([]sched.Point, []int, string, error) {
				set := faults.NewSet("verif")
				for _, d := range sc.descs {
					set.Add(faults.Description{Operation: d.op, Parameters: d.params, Count: d.count, OnFault: func(faults.Description, faults.Parameters) error { return errC18 }})
				}
				r := sched.NewRun()
				defer r.Finish()
				results := make([][]error, len(sc.calls))
				for i, c := range sc.calls {
					i, c := i, c
					r.Go(fmt.Sprintf("c%d", i), func() {
						for k := 0; k < c.times; k++ {
							results[i] = append(results[i], set.Check(c.op, c.params))
						}
					})
				}
				var seenCur []map[string][]faults.Description
				if sc.reader {
					r.Go("reader", func() { seenCur = append(seenCur, set.Current()) })
				}
				if sc.adder != nil {
					r.Go("adder", func() {
						set.Add(faults.Description{Operation: sc.adder.op, Parameters: sc.adder.params, Count: sc.adder.count, OnFault: func(faults.Description, faults.Parameters) error { return errC18 }})
					})
				}
				if sc.adder2 != nil {
					r.Go("adder2", func() {
						set.Add(faults.Description{Operation: sc.adder2.op, Parameters: sc.adder2.params, Count: sc.adder2.count, OnFault: func(faults.Description, faults.Parameters) error { return errC18 }})
					})
				}
				err := r.RunToQuiescence(prefix, expect)
				verdict := ""
				if err == nil {
					if !r.AllDone() {
						verdict = fmt.Sprintf("VIOLATION deadlock: threads blocked at %v", r.Blocked())
					} else {
						verdict = c18Oracle(sc, set, results, seenCur)
					}
				}
				r.Release()
				synctest.Wait()
				return r.Points, r.Choices, verdict, err
			}
			res, err := sched.Explore(exec, sc.bound, 0, func() bool { return report.RealNow().After(deadline) })
			if err != nil {
				fmt.Fprintln(os.Stderr, "C18 harness:", err)
				os.Exit(2)
			}
			totalExec += res.Executions
			totalDec += res.Decisions
			complete = complete && res.Complete
			perScen[sc.name] = map[string]any{"executions": res.Executions, "decisions": res.Decisions, "preemption_bound": sc.bound, "complete": res.Complete, "diverged": res.Diverged, "outcomes": res.Outcomes, "max_decisions_per_execution": res.MaxDepth}
			fmt.Printf("C18/%s: executions=%d bound=%d complete=%v diverged=%d outcomes=%v\n", sc.name, res.Executions, sc.bound, res.Complete, res.Diverged, res.Outcomes)
			for _, s := range res.Samples {
				if len(samples) < 4 {
					samples = append(samples, map[string]any{"scenario": sc.name, "schedule": s})
				}
			}
			for _, v := range res.Violations {
				// confirm: the same schedule must fail every time
				same := 0
				for k := 0; k < 5; k++ {
					_, _, vd, err := exec(v.Choices, nil)
					if err == nil && vd == v.Verdict {
						same++
					}
				}
				if same < 5 {
					fmt.Printf("  (schedule %v not reproducible: %d/5; not reported)\n", v.Choices, same)
					complete = false
					continue
				}
				sink.add(report.Viol{Property: "C18", Check: "C18/" + sc.name, Rule: "fault-count", Text: v.Verdict, Trace: []string{fmt.Sprint(v.Choices)}})
			}
		}
	})
	// parameter extraction from real request messages (grpc/faults.go) is covered by matchInputs
	mi, mv := c18MatchInputs()
	for _, v := range mv {
		sink.add(v)
	}
	sn, sv := c18Sequences()
	for _, v := range sv {
		sink.add(v)
	}
	rn, rv := c18Rest()
	for _, v := range rv {
		sink.add(v)
	}
	_, fcov, fv := c18AllRequestFields()
	for _, v := range fv {
		sink.add(v)
	}
	if len(samples) == 0 {
		samples = append(samples, "none")
	}
	cov := map[string]any{
		"states":                        totalDec,
		"transitions":                   totalDec,
		"traces_validated_against_impl": totalExec,
		"executions":                    totalExec,
		"samples":                       samples,
		"scenarios":                     perScen,
		"exhaustive":                    complete,
		"match_inputs":                  mi,
		"interceptor_call_pairs":        sn,
		"rest_injection_checks":         rn,
		"explanation":                   "stateless DFS over all interleavings of the real faults.Set code at every lock acquisition, atomic operation and goroutine spawn (sync / sync/atomic routed through scheduler shims by an overlay rewrite), up to the stated preemption bound per scenario (-1 = unbounded); states = scheduling decisions taken, every execution runs the implementation itself",
	}
	for k, v := range fcov {
		cov[k] = v
	}
	ev := report.Evidence{PropertyID: "C18", Tier: tier, Seed: report.Seed(), Level: "model_checking", Coverage: cov,
		Assumptions: []string{"sequentially consistent atomics (the scheduler interleaves whole operations)", "unsynchronised accesses would need the separate -race pass, which is supplementary and not part of this verdict"}}
	return report.Finish(ev, sink.list, t0)
}

func c18Oracle(sc c18Scen, set *faults.Set, results [][]error, cur []map[string][]faults.Description) string {
	failed, matching := 0, 0
	capacity := int64(0)
	for _, d := range sc.descs {
		capacity += d.count
	}
	for i, c := range sc.calls {
		m := false
		for _, d := range sc.descs {
			if d.matches(c) {
				m = true
			}
		}
		if sc.adder != nil && sc.adder.matches(c) {
			return "harness: adder must not match callers"
		}
		for _, e := range results[i] {
			if e != nil {
				if !m {
					return fmt.Sprintf("VIOLATION non-matching call %d (%s %v) was failed", i, c.op, c.params)
				}
				failed++
			}
		}
		if m {
			matching += len(results[i])
		}
	}
	want := int(capacity)
	if matching < want {
		want = matching
	}
	if failed != want {
		return fmt.Sprintf("VIOLATION %d calls failed, want exactly min(total count %d, matching calls %d) = %d", failed, capacity, matching, want)
	}
	// listing: remaining counts add up, nothing exhausted is listed
	remaining := int64(0)
	for _, l := range set.Current() {
		for _, d := range l {
			if d.Count <= 0 {
				return "VIOLATION exhausted fault still listed by Current()"
			}
			remaining += d.Count
		}
	}
	add := int64(0)
	if sc.adder != nil {
		add = sc.adder.count
	}
	if sc.adder2 != nil {
		if sc.adder2.matches(sc.calls[0]) {
			return "harness: adder2 must not match callers"
		}
		add += sc.adder2.count
	}
	if remaining != capacity+add-int64(failed) {
		return fmt.Sprintf("VIOLATION Current() lists %d remaining injections, want %d", remaining, capacity+add-int64(failed))
	}
	for _, c := range cur {
		for _, l := range c {
			for _, d := range l {
				if d.Count <= 0 {
					return "VIOLATION a concurrent Current() listed an exhausted fault"
				}
			}
		}
	}
	return fmt.Sprintf("ok failed=%d", failed)
}

// c18MatchInputs: Description matching over all (description params, call
// params) pairs of a 3-key domain through the exported Set API, and parameter
// extraction from real request messages through the unary interceptor.
func c18MatchInputs() (int, []report.Viol) {
	var viols []report.Viol
	keys := []string{"a", "b", "c"}
	vals := []string{"", "1", "2"} // "" = absent
	n := 0
	var gen func(i int, cur map[string]string, out *[]map[string]string)
	gen = func(i int, cur map[string]string, out *[]map[string]string) {
		if i == len(keys) {
			m := map[string]string{}
			for k, v := range cur {
				m[k] = v
			}
			*out = append(*out, m)
			return
		}
		for _, v := range vals {
			if v != "" {
				cur[keys[i]] = v
			}
			gen(i+1, cur, out)
			delete(cur, keys[i])
		}
	}
	var all []map[string]string
	gen(0, map[string]string{}, &all)
	for _, dp := range all {
		for _, cp := range all {
			for _, op := range []string{"op", "other"} {
				set := faults.NewSet("verif")
				set.Add(faults.Description{Operation: "op", Parameters: dp, Count: 1, OnFault: func(faults.Description, faults.Parameters) error { return errC18 }})
				err := set.Check(op, cp)
				want := op == "op"
				for k, v := range dp {
					if w, ok := cp[k]; !ok || w != v {
						want = false
					}
				}
				n++
				if (err != nil) != want {
					viols = append(viols, report.Viol{Property: "C18", Check: "C18/match", Rule: "fault-match", Text: fmt.Sprintf("fault {op, %v} vs call {%s, %v}: failed=%v, want %v", dp, op, cp, err != nil, want), Trace: []string{fmt.Sprint(dp), fmt.Sprint(cp)}})
				}
			}
		}
	}
	// request string fields become parameters (grpc/faults.go), via the real interceptor
	reqs := []struct {
		method string
		msg    any
		params map[string]string
		want   bool
	}{
		{"Publish", &pubsubpb.PublishRequest{Topic: "projects/p/topics/t"}, map[string]string{"topic": "projects/p/topics/t"}, true},
		{"Publish", &pubsubpb.PublishRequest{Topic: "projects/p/topics/t"}, map[string]string{"topic": "projects/p/topics/u"}, false},
		{"Publish", &pubsubpb.PublishRequest{Topic: "projects/p/topics/t"}, map[string]string{"google.pubsub.v1.PublishRequest.topic": "projects/p/topics/t"}, true},
		{"Pull", &pubsubpb.PullRequest{Subscription: "s", MaxMessages: 3}, map[string]string{"subscription": "s"}, true},
		{"Pull", &pubsubpb.PullRequest{Subscription: "s", MaxMessages: 3}, map[string]string{"max_messages": "3"}, false},
		{"Pull", &pubsubpb.PullRequest{Subscription: "s"}, map[string]string{"google.pubsub.v1.Subscriber": "Pull"}, true},
		{"Pull", &pubsubpb.PullRequest{Subscription: "s"}, map[string]string{"google.pubsub.v1.Subscriber": "Acknowledge"}, false},
		{"UpdateSubscription", &pubsubpb.UpdateSubscriptionRequest{UpdateMask: &fieldmaskpb.FieldMask{Paths: []string{"x"}}}, map[string]string{"paths": "x"}, false},
	}
	for _, rq := range reqs {
		ok, err := c18ViaInterceptor(rq.method, rq.msg, rq.params)
		n++
		if err != nil || ok != rq.want {
			viols = append(viols, report.Viol{Property: "C18", Check: "C18/params", Rule: "fault-params", Text: fmt.Sprintf("%s %v with injected params %v: failed=%v (%v), want %v", rq.method, rq.msg, rq.params, ok, err, rq.want), Trace: []string{rq.method, fmt.Sprint(rq.params)}})
		}
	}
	sort.Slice(viols, func(i, j int) bool { return strings.Join(viols[i].Trace, "") < strings.Join(viols[j].Trace, "") })
	return n, viols
}
