package checks

import (
	"time"

	"verif/mc/hist"
	"verif/mc/model"
)

func pub1(topic, key string, attr int) model.Op {
	return model.Op{K: "pub", Topic: topic, Keys: []string{key}, Attrs: []int{attr}}
}
func pubN(topic string, keys ...string) model.Op {
	return model.Op{K: "pub", Topic: topic, Keys: keys, Attrs: make([]int, len(keys))}
}
func pull(sub string, max int) model.Op { return model.Op{K: "pull", Sub: sub, Max: max} }
func ack(sub, sel string) model.Op      { return model.Op{K: "ack", Sub: sub, Sel: sel} }
func nack(sub, sel string) model.Op     { return model.Op{K: "nack", Sub: sub, Sel: sel} }
func modack(sub, sel string, d time.Duration) model.Op {
	return model.Op{K: "modack", Sub: sub, Sel: sel, D: d}
}
func tick(tgt string) model.Op { return model.Op{K: "tick", Tgt: tgt} }
func job(name string, minAge time.Duration, maxDel int) model.Op {
	return model.Op{K: "job", Job: name, MinAge: minAge, MaxDel: maxDel}
}

func init() {
	histChecks["C05"] = func(tier string) []*hist.Scenario {
		depth := 5
		if tier == "thorough" {
			depth = 6
		}
		a := &hist.Scenario{
			ID: "C05/ordered+sibling", Prop: "C05", Depth: depth, Drain: true,
			Cfg: model.Cfg{Topics: []string{"T0"}, Subs: []model.SubCfg{
				{Name: "S0", Topic: "T0", Ordered: true},
				{Name: "S1", Topic: "T0"},
			}},
			Alphabet: []model.Op{
				pub1("T0", "K1", 0), pub1("T0", "K2", 0), pub1("T0", "", 0),
				pubN("T0", "K1", "K1"), pubN("T0", "K1", ""),
				pull("S0", 1), pull("S0", 10),
				ack("S0", "oldest"), ack("S0", "newest"), ack("S0", "all"),
				nack("S0", "oldest"), modack("S0", "all", 0),
				tick("lease+"),
			},
		}
		b := &hist.Scenario{
			ID: "C05/ordered+seek+prune", Prop: "C05", Depth: d(tier, 6, 7), Drain: true,
			Cfg: model.Cfg{Topics: []string{"T0"}, Subs: []model.SubCfg{
				{Name: "S0", Topic: "T0", Ordered: true, Retention: 10 * time.Minute},
			}},
			Alphabet: []model.Op{
				pub1("T0", "K1", 0), pub1("T0", "K2", 0),
				pull("S0", 1), pull("S0", 10),
				ack("S0", "oldest"), ack("S0", "all"),
				seekT("S0", "before-all"), seekT("S0", "after-0"), snap("S0", "N0"), seekS("S0", "N0"),
				job("prune-completed-deliveries", 0, 100), job("prune-expired-deliveries", 0, 100),
				tick("lease+"), tick("ret+"),
			},
		}
		c := &hist.Scenario{
			ID: "C05/ordered+deadletter", Prop: "C05", Depth: d(tier, 6, 8), Drain: true,
			Cfg: model.Cfg{Topics: []string{"T0", "TD"}, Subs: []model.SubCfg{
				{Name: "S0", Topic: "T0", Ordered: true, DLTopic: "TD", MaxAttempts: 1},
				{Name: "SD", Topic: "TD", Ordered: true},
			}},
			Alphabet: []model.Op{
				pub1("T0", "K1", 0), pubN("T0", "K1", "K2"),
				pull("S0", 1), pull("S0", 10), pull("SD", 1), pull("SD", 10),
				ack("S0", "oldest"), ack("SD", "oldest"), nack("S0", "oldest"), nack("S0", "all"),
				sweep(), tick("lease+"),
			},
		}
		// an UNORDERED source retires same-key messages in any order into an ORDERED
		// dead-letter subscription: there the forwarded copies are ordered among
		// themselves by the order in which they arrived
		e := &hist.Scenario{
			ID: "C05/unordered-source-ordered-deadletter", Prop: "C05", Depth: d(tier, 6, 7), Drain: true,
			Cfg: model.Cfg{Topics: []string{"T0", "TD"}, Subs: []model.SubCfg{
				{Name: "S0", Topic: "T0", DLTopic: "TD", MaxAttempts: 1},
				{Name: "SD", Topic: "TD", Ordered: true},
			}},
			Prelude: []model.Op{pubN("T0", "K1", "K1", "K1"), pull("S0", 10)},
			Alphabet: []model.Op{
				nack("S0", "oldest"), nack("S0", "newest"), nack("S0", "all"),
				pull("SD", 1), pull("SD", 10), ack("SD", "oldest"), ack("SD", "all"),
				pub1("T0", "K1", 0), pull("S0", 10), tick("lease+"),
			},
		}
		// a seek revives an old message with FRESH retention; by the time the next
		// same-key message is published the revived one is older than the retention
		// (counted from its publish) but still outstanding
		f := &hist.Scenario{
			ID: "C05/revived-predecessor-older-than-retention", Prop: "C05", Depth: d(tier, 6, 7), Drain: true,
			Cfg: model.Cfg{Topics: []string{"T0"}, Subs: []model.SubCfg{
				{Name: "S0", Topic: "T0", Ordered: true, Retention: 40 * time.Minute},
			}},
			Prelude: []model.Op{pub1("T0", "K1", 0), pull("S0", 10), ack("S0", "all"), tick("+30m"), seekT("S0", "before-all"), tick("+30m")},
			Alphabet: []model.Op{
				pub1("T0", "K1", 0), pub1("T0", "K2", 0),
				pull("S0", 1), pull("S0", 10), ack("S0", "oldest"), ack("S0", "newest"),
				tick("lease+"),
			},
		}
		// a seek over a key whose middle message was retired into the dead-letter topic
		// (not acknowledged): whatever the seek revives, the key's order must hold
		g := &hist.Scenario{
			ID: "C05/ordered+deadletter+seek", Prop: "C05", Depth: d(tier, 6, 7), Drain: true, PastForeign: true,
			Cfg: model.Cfg{Topics: []string{"T0", "TD"}, Subs: []model.SubCfg{
				{Name: "S0", Topic: "T0", Ordered: true, DLTopic: "TD", MaxAttempts: 1},
				{Name: "SD", Topic: "TD"},
			}},
			Prelude: []model.Op{pubN("T0", "K1", "K1", "K1")},
			Alphabet: []model.Op{
				pull("S0", 1), pull("S0", 10),
				ack("S0", "oldest"), nack("S0", "oldest"),
				seekT("S0", "before-all"),
				tick("lease+"),
			},
		}
		// the prune jobs take a limited batch: whatever part of a key's completed chain
		// a tick removes, a later seek must not let a successor overtake a revived
		// predecessor
		h := &hist.Scenario{
			ID: "C05/partial-prune+seek", Prop: "C05", Depth: d(tier, 5, 6), Drain: true, PastForeign: true,
			Cfg: model.Cfg{Topics: []string{"T0"}, Subs: []model.SubCfg{
				{Name: "S0", Topic: "T0", Ordered: true},
			}},
			Prelude: []model.Op{pubN("T0", "K1", "K1", "K1", "K1"), pull("S0", 1), ack("S0", "oldest"), pull("S0", 1), ack("S0", "oldest"), pull("S0", 1), ack("S0", "oldest")},
			Alphabet: []model.Op{
				job("prune-completed-deliveries", 0, 1), job("prune-completed-deliveries", 0, 100),
				seekT("S0", "before-all"), seekT("S0", "after-0"),
				pull("S0", 1), pull("S0", 10), tick("lease+"),
			},
		}
		// a LATER same-key message whose retention ends before an earlier one's (the
		// earlier one was revived by a seek with fresh retention): the next publish
		// must queue behind the earlier, still outstanding one
		i := &hist.Scenario{
			ID: "C05/later-message-expires-first", Prop: "C05", Depth: d(tier, 5, 6), Drain: true,
			Cfg: model.Cfg{Topics: []string{"T0"}, Subs: []model.SubCfg{
				{Name: "S0", Topic: "T0", Ordered: true, Retention: 40 * time.Minute},
			}},
			Prelude: []model.Op{pubN("T0", "K1", "K1"), pull("S0", 1), ack("S0", "oldest"), tick("+30m"), seekT("S0", "before-all"), tick("ret+")},
			Alphabet: []model.Op{
				pub1("T0", "K1", 0), pull("S0", 1), pull("S0", 10), ack("S0", "oldest"), tick("lease+"),
			},
		}
		return []*hist.Scenario{a, b, c, e, f, g, h, i}
	}
}
