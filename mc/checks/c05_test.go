package checks

import (
	"time"

	"verif/mc/hist"
	"verif/mc/model"
)

func pub1(topic, key string, attr int) model.Op {
	return model.Op{K: "pub", Topic: topic, Keys: []string{key}, Attrs: []int{attr}}
}
func pubN(topic string, keys ...string) model.Op {
	return model.Op{K: "pub", Topic: topic, Keys: keys, Attrs: make([]int, len(keys))}
}
func pull(sub string, max int) model.Op { return model.Op{K: "pull", Sub: sub, Max: max} }
func ack(sub, sel string) model.Op      { return model.Op{K: "ack", Sub: sub, Sel: sel} }
func nack(sub, sel string) model.Op     { return model.Op{K: "nack", Sub: sub, Sel: sel} }
func modack(sub, sel string, d time.Duration) model.Op {
	return model.Op{K: "modack", Sub: sub, Sel: sel, D: d}
}
func tick(tgt string) model.Op { return model.Op{K: "tick", Tgt: tgt} }
func job(name string, minAge time.Duration, maxDel int) model.Op {
	return model.Op{K: "job", Job: name, MinAge: minAge, MaxDel: maxDel}
}

func init() {
	histChecks["C05"] = func(tier string) []*hist.Scenario {
		depth := 5
		if tier == "thorough" {
			depth = 7
		}
		a := &hist.Scenario{
			ID: "C05/ordered+sibling", Prop: "C05", Depth: depth, Drain: true,
			Cfg: model.Cfg{Topics: []string{"T0"}, Subs: []model.SubCfg{
				{Name: "S0", Topic: "T0", Ordered: true},
				{Name: "S1", Topic: "T0"},
			}},
			Alphabet: []model.Op{
				pub1("T0", "K1", 0), pub1("T0", "K2", 0), pub1("T0", "", 0),
				pubN("T0", "K1", "K1"), pubN("T0", "K1", ""),
				pull("S0", 1), pull("S0", 10),
				ack("S0", "oldest"), ack("S0", "newest"), ack("S0", "all"),
				nack("S0", "oldest"), modack("S0", "all", 0),
				tick("lease+"),
			},
		}
		return []*hist.Scenario{a}
	}
}
