//go:build verifshim

package checks

import (
	"fmt"
	"sort"

	"cloud.google.com/go/pubsub/apiv1/pubsubpb"
	"google.golang.org/protobuf/proto"
	"google.golang.org/protobuf/reflect/protoreflect"
	"google.golang.org/protobuf/reflect/protoregistry"

	"go.6river.tech/mmmbbb/faults"

	"verif/mc/report"
)

// Request string fields become parameters, for EVERY request type of the API: each
// rpc of the Publisher, Subscriber and SchemaService descriptors x each of its
// top-level fields x {only that field populated, every field populated} x every
// spelling of the field name.  A fault on a singular string field fails the call
// exactly when the value is equal; a name of any other field never matches.

func c18Populate(m protoreflect.Message, only protoreflect.FieldDescriptor) {
	fds := m.Descriptor().Fields()
	for i := 0; i < fds.Len(); i++ {
		fd := fds.Get(i)
		if only != nil && fd != only {
			continue
		}
		if fd.ContainingOneof() != nil && only == nil && fd.ContainingOneof().Fields().Get(0) != fd {
			continue // one member per oneof
		}
		var v protoreflect.Value
		scalar := func() protoreflect.Value {
			switch fd.Kind() {
			case protoreflect.StringKind:
				return protoreflect.ValueOfString("v-" + string(fd.Name()))
			case protoreflect.BytesKind:
				return protoreflect.ValueOfBytes([]byte("b"))
			case protoreflect.BoolKind:
				return protoreflect.ValueOfBool(true)
			case protoreflect.EnumKind:
				return protoreflect.ValueOfEnum(1)
			case protoreflect.Int32Kind, protoreflect.Sint32Kind, protoreflect.Sfixed32Kind:
				return protoreflect.ValueOfInt32(7)
			case protoreflect.Int64Kind, protoreflect.Sint64Kind, protoreflect.Sfixed64Kind:
				return protoreflect.ValueOfInt64(7)
			case protoreflect.Uint32Kind, protoreflect.Fixed32Kind:
				return protoreflect.ValueOfUint32(7)
			case protoreflect.Uint64Kind, protoreflect.Fixed64Kind:
				return protoreflect.ValueOfUint64(7)
			case protoreflect.FloatKind:
				return protoreflect.ValueOfFloat32(1.5)
			case protoreflect.DoubleKind:
				return protoreflect.ValueOfFloat64(1.5)
			}
			return protoreflect.Value{}
		}
		switch {
		case fd.IsMap():
			mp := m.Mutable(fd).Map()
			if fd.MapValue().Kind() == protoreflect.StringKind && fd.MapKey().Kind() == protoreflect.StringKind {
				mp.Set(protoreflect.ValueOfString("k").MapKey(), protoreflect.ValueOfString("mv"))
			}
			continue
		case fd.IsList():
			l := m.Mutable(fd).List()
			if fd.Kind() == protoreflect.MessageKind || fd.Kind() == protoreflect.GroupKind {
				l.Append(l.NewElement())
			} else {
				l.Append(scalar())
			}
			continue
		case fd.Kind() == protoreflect.MessageKind || fd.Kind() == protoreflect.GroupKind:
			sub := m.Mutable(fd).Message()
			// nested string fields are populated as well: they are not parameters
			sfs := sub.Descriptor().Fields()
			for j := 0; j < sfs.Len(); j++ {
				if sf := sfs.Get(j); sf.Kind() == protoreflect.StringKind && !sf.IsList() && !sf.IsMap() && sf.ContainingOneof() == nil {
					sub.Set(sf, protoreflect.ValueOfString("nested-"+string(sf.Name())))
				}
			}
			continue
		default:
			v = scalar()
		}
		if v.IsValid() {
			m.Set(fd, v)
		}
	}
}

func c18FieldNames(fd protoreflect.FieldDescriptor) []string {
	seen := map[string]bool{}
	var out []string
	for _, n := range []string{fd.TextName(), fd.JSONName(), string(fd.Name()), string(fd.FullName())} {
		if !seen[n] {
			seen[n] = true
			out = append(out, n)
		}
	}
	return out
}

func c18AllRequestFields() (int, map[string]any, []report.Viol) {
	var viols []report.Viol
	n, methods, fieldsSeen := 0, 0, 0
	add := func(rule, text string, trace ...string) {
		if len(viols) < 40 {
			viols = append(viols, report.Viol{Property: "C18", Check: "C18/request-fields", Rule: rule, Text: text, Trace: trace})
		}
	}
	try := func(e c18Entry, params map[string]string, want bool, what string) {
		set := faults.NewSet("verif")
		set.Add(faults.Description{Operation: e.op(), Parameters: params, Count: 1, OnFault: func(faults.Description, faults.Parameters) error { return errC18 }})
		failed, err := e.run(set)
		n++
		if err != nil {
			add("fault-params", fmt.Sprintf("%s %s: unexpected error %v", e.method, what, err), e.method, what)
			return
		}
		if failed != want {
			add("fault-params", fmt.Sprintf("%s (%s) with request %v and injected parameters %v: failed=%v, want %v (%s)", e.method, e.kind, e.msg, params, failed, want, what), e.method, e.kind, fmt.Sprint(params))
			return
		}
		left := len(set.Current()) > 0
		if left == want {
			add("fault-listing", fmt.Sprintf("%s (%s) with injected parameters %v: fired=%v but still listed=%v", e.method, e.kind, params, want, left), e.method, e.kind, fmt.Sprint(params))
		}
	}
	svcs := pubsubpb.File_google_pubsub_v1_pubsub_proto.Services()
	var all []protoreflect.ServiceDescriptor
	for i := 0; i < svcs.Len(); i++ {
		all = append(all, svcs.Get(i))
	}
	ss := pubsubpb.File_google_pubsub_v1_schema_proto.Services()
	for i := 0; i < ss.Len(); i++ {
		all = append(all, ss.Get(i))
	}
	for _, sd := range all {
		for i := 0; i < sd.Methods().Len(); i++ {
			md := sd.Methods().Get(i)
			methods++
			full := "/" + string(sd.FullName()) + "/" + string(md.Name())
			type side struct {
				kind string
				desc protoreflect.MessageDescriptor
			}
			sides := []side{{"unary", md.Input()}}
			if md.IsStreamingClient() || md.IsStreamingServer() {
				sides = []side{{"recv", md.Input()}, {"send", md.Output()}}
			}
			for _, sd2 := range sides {
				mt, err := protoregistry.GlobalTypes.FindMessageByName(sd2.desc.FullName())
				if err != nil {
					add("fault-params", fmt.Sprintf("no message type for %s", sd2.desc.FullName()), full)
					continue
				}
				fds := sd2.desc.Fields()
				var strFields []protoreflect.FieldDescriptor
				for j := 0; j < fds.Len(); j++ {
					if fd := fds.Get(j); fd.Kind() == protoreflect.StringKind && !fd.IsList() && !fd.IsMap() {
						strFields = append(strFields, fd)
					}
				}
				for j := 0; j < fds.Len(); j++ {
					fd := fds.Get(j)
					fieldsSeen++
					for _, pattern := range []string{"only", "all"} {
						m := mt.New()
						if pattern == "only" {
							c18Populate(m, fd)
						} else {
							c18Populate(m, nil)
							if fd.ContainingOneof() != nil && !m.Has(fd) {
								c18Populate(m, fd) // switch the oneof to this member
							}
						}
						e := c18Entry{kind: sd2.kind, method: full, msg: m.Interface().(proto.Message)}
						isParam := fd.Kind() == protoreflect.StringKind && !fd.IsList() && !fd.IsMap()
						for _, name := range c18FieldNames(fd) {
							if isParam {
								val := m.Get(fd).String()
								try(e, map[string]string{name: val}, true, pattern+": equal value of "+name)
								try(e, map[string]string{name: val + "x"}, false, pattern+": other value of "+name)
								try(e, map[string]string{name: ""}, false, pattern+": empty value of "+name)
								for _, g := range strFields {
									if g == fd || !m.Has(g) {
										continue
									}
									try(e, map[string]string{name: val, g.TextName(): m.Get(g).String()}, true, pattern+": two equal values")
									try(e, map[string]string{name: val, g.TextName(): "other"}, false, pattern+": one of two values differs")
								}
							} else {
								for _, val := range []string{"", "7", "true", "1.5", "b", "v-" + string(fd.Name()), "mv", "nested-name", "nested-topic"} {
									try(e, map[string]string{name: val}, false, pattern+": name of a field that is no singular string")
								}
							}
						}
						// the service/method pseudo parameter
						svcName, mName := splitFull(full)
						try(e, map[string]string{svcName: mName}, true, pattern+": service=method")
					}
				}
			}
		}
	}
	sort.Slice(viols, func(i, j int) bool { return fmt.Sprint(viols[i].Trace) < fmt.Sprint(viols[j].Trace) })
	return n, map[string]any{"rpc_methods_enumerated": methods, "request_fields_enumerated": fieldsSeen, "request_field_fault_trials": n}, viols
}
