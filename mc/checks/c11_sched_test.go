//go:build verifshim

package checks

import (
	"context"
	"fmt"
	"os"
	"sync"
	"testing"
	"testing/synctest"
	"time"

	"github.com/google/uuid"

	"go.6river.tech/mmmbbb/actions"
	"go.6river.tech/mmmbbb/grpc/pubsubpb"

	"verif/mc/report"
	"verif/mc/sched"
	"verif/mc/vsql"
	"verif/mc/world"
)

// Layer 2 of C11: the streamer's own goroutines (sender, reader, refresher) and
// a client are interleaved at every transaction boundary and at every
// acquisition / release of the streamer's mutex (message-streamer.go is built
// against the sync shim), up to a preemption bound.  Oracle at quiescence: no
// capacity AND deliverable message left over (the no-stall clause), and the
// flow-control bound at every Send.

type c11Script struct {
	name   string
	fc     actions.FlowControl
	npub   int
	client func(conn *memConn, got <-chan uuid.UUID, w *world.World)
}

func c11Scripts() []c11Script {
	return []c11Script{
		{"stream nack frees capacity", actions.FlowControl{MaxMessages: 1, MaxBytes: 1000}, 2, func(conn *memConn, got <-chan uuid.UUID, w *world.World) {
			id := <-got
			conn.reqs <- &actions.MessageStreamRequest{Nack: []uuid.UUID{id}}
		}},
		{"stream ack frees capacity", actions.FlowControl{MaxMessages: 1, MaxBytes: 1000}, 2, func(conn *memConn, got <-chan uuid.UUID, w *world.World) {
			id := <-got
			conn.reqs <- &actions.MessageStreamRequest{Ack: []uuid.UUID{id}}
		}},
		{"stream zero-deadline frees capacity", actions.FlowControl{MaxMessages: 1, MaxBytes: 1000}, 2, func(conn *memConn, got <-chan uuid.UUID, w *world.World) {
			id := <-got
			conn.reqs <- &actions.MessageStreamRequest{Delay: []uuid.UUID{id}, DelaySeconds: 0}
		}},
		{"flow control raised", actions.FlowControl{MaxMessages: 1, MaxBytes: 1000}, 2, func(conn *memConn, got <-chan uuid.UUID, w *world.World) {
			<-got
			conn.reqs <- &actions.MessageStreamRequest{FlowControl: &actions.FlowControl{MaxMessages: 2, MaxBytes: 1000}}
		}},
		{"external Acknowledge frees capacity", actions.FlowControl{MaxMessages: 1, MaxBytes: 1000}, 2, func(conn *memConn, got <-chan uuid.UUID, w *world.World) {
			id := <-got
			w.Sub.Acknowledge(vsql.WithThread(context.Background(), "client"), &pubsubpb.AcknowledgeRequest{Subscription: c11Sub, AckIds: []string{id.String()}})
		}},
	}
}

func c11Interleavings(t *testing.T, tier string, deadline time.Time) (map[string]any, []report.Viol, error) {
	bound := 2
	if tier == "thorough" {
		bound = 3
	}
	per := map[string]any{}
	var viols []report.Viol
	total, decisions := 0, 0
	complete := true
	var ferr error
	synctest.Test(t, func(t *testing.T) {
		w, err := world.Open()
		if err != nil {
			ferr = err
			return
		}
		defer w.Close()
		w.SeqTick = false
		bctx := context.Background()
		if _, err := w.Pub.CreateTopic(bctx, &pubsubpb.Topic{Name: c11Topic}); err != nil {
			ferr = err
			return
		}
		if _, err := w.Sub.CreateSubscription(bctx, &pubsubpb.Subscription{Name: c11Sub, Topic: c11Topic}); err != nil {
			ferr = err
			return
		}
		var idStr string
		if err := w.DB.QueryRow("SELECT id FROM subscriptions").Scan(&idStr); err != nil {
			ferr = err
			return
		}
		subID := uuid.MustParse(idStr)
		for _, sc := range c11Scripts() {
			sc := sc
			if only := os.Getenv("VERIF_SCEN"); only != "" && only != sc.name {
				continue
			}
			// base state: npub messages published
			w.SetExtra(nil)
			w.SeqTick = true
			w.DB.Exec("DELETE FROM deliveries")
			w.DB.Exec("DELETE FROM messages")
			for i := 0; i < sc.npub; i++ {
				if _, err := w.Pub.Publish(bctx, &pubsubpb.PublishRequest{Topic: c11Topic, Messages: []*pubsubpb.PubsubMessage{{Data: payloadOf(10)}}}); err != nil {
					ferr = err
					return
				}
			}
			w.SeqTick = false
			base, _ := w.Dump()
			exec := func(prefix []int, expect []sched.Point) ([]sched.Point, []int, string, error) {
				if err := w.Restore(base); err != nil {
					return nil, nil, "", err
				}
				var vmu sync.Mutex
				out := map[string]int{}
				settled := map[string]bool{}
				verdict := ""
				curMax := sc.fc.MaxMessages
				got := make(chan uuid.UUID, 16)
				conn := &memConn{reqs: make(chan *actions.MessageStreamRequest)}
				conn.onSend = func(d *actions.SubscriptionMessageDelivery) {
					vmu.Lock()
					defer vmu.Unlock()
					out[d.ID.String()] = len(d.Payload)
					n := 0
					for id := range out {
						if !settled[id] {
							n++
						}
					}
					if n > 2 { // the largest limit any script sets
						verdict = fmt.Sprintf("VIOLATION %d messages outstanding, limit %d", n, curMax)
					}
					select {
					case got <- d.ID:
					default:
					}
				}
				w.SetExtra(txGateHook)
				r := sched.NewRun()
				r.RoleThreads = true
				ctx, cancel := context.WithCancel(vsql.WithThread(context.Background(), "stream"))
				done := make(chan error, 1)
				ms := &actions.MessageStreamer{Client: w.Client, SubscriptionID: &subID, SubscriptionName: c11Sub, AutomaticNack: true}
				r.Go("streamer", func() { done <- ms.Go(ctx, conn) })
				r.Go("client", func() {
					conn.reqs <- &actions.MessageStreamRequest{FlowControl: &actions.FlowControl{MaxMessages: sc.fc.MaxMessages, MaxBytes: sc.fc.MaxBytes}}
					sc.client(conn, got, w)
				})
				err := r.RunToQuiescence(prefix, expect)
				if err == nil && verdict == "" {
					// no-stall: everything published must have been sent by now (each
					// script frees / raises capacity for the second message)
					vmu.Lock()
					sent := len(out)
					vmu.Unlock()
					if !r.Done("client") {
						verdict = "VIOLATION the client could not deliver its request to the stream (reader stuck)"
					} else if sent < sc.npub {
						verdict = fmt.Sprintf("VIOLATION stall: %d of %d deliverable messages were sent although the client freed / raised its capacity and nothing else is pending", sent, sc.npub)
					} else {
						verdict = "ok"
					}
				}
				r.Release()
				w.SetExtra(nil)
				cancel()
				select {
				case <-done:
				case <-time.After(time.Hour):
					if err == nil {
						verdict = "VIOLATION the streamer did not stop after its context was cancelled"
					}
				}
				synctest.Wait()
				actions.WakeAllInternal()
				r.Finish()
				return r.Points, r.Choices, verdict, err
			}
			res, err := sched.Explore(exec, bound, 0, func() bool { return time.Now().After(deadline) })
			if err != nil {
				ferr = fmt.Errorf("%s: %w", sc.name, err)
				return
			}
			total += res.Executions
			decisions += res.Decisions
			ok := res.Complete
			for _, v := range res.Violations {
				same := 0
				for k := 0; k < 5; k++ {
					_, _, vd, err := exec(v.Choices, nil)
					if err == nil && vd == v.Verdict {
						same++
					}
				}
				if same == 5 {
					viols = append(viols, report.Viol{Property: "C11", Check: "C11/interleavings: " + sc.name, Rule: "schedule", Text: v.Verdict, Trace: []string{fmt.Sprint(v.Choices)}})
				} else {
					ok = false
				}
			}
			complete = complete && ok
			per[sc.name] = map[string]any{"schedules": res.Executions, "decisions": res.Decisions, "preemption_bound": bound, "complete": ok, "diverged": res.Diverged, "outcomes": res.Outcomes}
			fmt.Printf("C11/interleavings %s: schedules=%d bound=%d complete=%v diverged=%d outcomes=%v\n", sc.name, res.Executions, bound, ok, res.Diverged, res.Outcomes)
		}
	})
	return map[string]any{"interleaving_scenarios": per, "interleaving_schedules": total, "interleaving_decisions": decisions, "interleavings_complete": complete}, viols, ferr
}

func init() { c11Layer2 = c11Interleavings }
