//go:build verifshim

package checks

import (
	"io"
	"context"
	"fmt"
	"os"
	"sync"
	"testing"
	"testing/synctest"
	"time"

	"github.com/google/uuid"

	"go.6river.tech/mmmbbb/actions"
	"go.6river.tech/mmmbbb/grpc/pubsubpb"
	"google.golang.org/protobuf/types/known/timestamppb"

	"verif/mc/report"
	"verif/mc/sched"
	"verif/mc/vsql"
	"verif/mc/world"
)

// Layer 2 of C11: the streamer's own goroutines (sender, reader, refresher) and
// a client are interleaved at every transaction boundary and at every
// acquisition / release of the streamer's mutex (message-streamer.go is built
// against the sync shim), up to a preemption bound.  Oracle at quiescence: no
// capacity AND deliverable message left over (the no-stall clause), and the
// flow-control bound at every Send.

type c11Script struct {
	name   string
	fc     actions.FlowControl
	npub   int
	client func(conn *memConn, got <-chan uuid.UUID, w *world.World)
	// warm: the stream is opened, given its flow control and run FREE until it is
	// quiescent (first message sent if any is published); only what the clients do
	// afterwards is explored.  The id of the first message is in conn.share (twice).
	warm bool
	// limit: the largest max-outstanding-messages in force during the script
	// (default fc.MaxMessages)
	limit int
	// warmN: how many messages the warm phase waits for (default 1 when npub > 0)
	warmN int
	// bound: preemption bound override per tier (0 = the layer's default)
	boundQuick, boundThorough int
	// client2: an optional second concurrent client
	client2 func(conn *memConn, got <-chan uuid.UUID, w *world.World)
	// sub: the subscription the stream is opened on (default c11Sub)
	sub string
	// prep runs after the npub publishes, before the state is saved
	prep func(w *world.World) error
	// want: how many messages the stream must have sent at quiescence (default npub)
	want int
	// wantSends: how many Send calls must have happened (re-deliveries included)
	wantSends int
}

const (
	c10Sub2   = "projects/p/subscriptions/s2"  // second plain subscription of c11Topic
	c10SubOrd = "projects/p/subscriptions/so"  // ordered subscription of c11Topic
	c10TopicD = "projects/p/topics/td"         // dead-letter topic
	c10SubSrc = "projects/p/subscriptions/src" // max 1 attempt, dead-letters into td
	c10SubD   = "projects/p/subscriptions/sd"  // subscriber of td
)

// c10State: ack ids captured by a script's prep
var c10Ack = map[string][]string{}

func c10Pull(w *world.World, sub string) error {
	r, err := w.Sub.Pull(context.Background(), &pubsubpb.PullRequest{Subscription: sub, MaxMessages: 10, ReturnImmediately: true})
	if err != nil {
		return err
	}
	c10Ack[sub] = nil
	for _, m := range r.ReceivedMessages {
		c10Ack[sub] = append(c10Ack[sub], m.AckId)
	}
	if len(c10Ack[sub]) == 0 {
		return fmt.Errorf("prep: nothing pulled on %s", sub)
	}
	return nil
}

// c10StreamScripts: a StreamingPull that waits with nothing deliverable must be
// woken by every kind of committed change (C10), wherever the commit lands
// relative to the sender's register / fetch / wait steps.
func c10StreamScripts() []c11Script {
	cctx := func() context.Context { return vsql.WithThread(context.Background(), "client") }
	wide := actions.FlowControl{MaxMessages: 10, MaxBytes: 100000}
	return []c11Script{
		{name: "stream waiter: publish", fc: wide, want: 1, client: func(conn *memConn, got <-chan uuid.UUID, w *world.World) {
			w.Pub.Publish(cctx(), &pubsubpb.PublishRequest{Topic: c11Topic, Messages: []*pubsubpb.PubsubMessage{{Data: payloadOf(10)}}})
		}},
		{name: "stream waiter: zero deadline spanning two subscriptions", fc: wide, npub: 1, want: 1,
			prep: func(w *world.World) error {
				if err := c10Pull(w, c11Sub); err != nil {
					return err
				}
				return c10Pull(w, c10Sub2)
			},
			client: func(conn *memConn, got <-chan uuid.UUID, w *world.World) {
				ids := append(append([]string{}, c10Ack[c10Sub2]...), c10Ack[c11Sub]...)
				w.Sub.ModifyAckDeadline(cctx(), &pubsubpb.ModifyAckDeadlineRequest{Subscription: c10Sub2, AckIds: ids, AckDeadlineSeconds: 0})
			}},
		{name: "stream waiter: ack of an ordered predecessor", fc: wide, sub: c10SubOrd, want: 1,
			prep: func(w *world.World) error {
				if _, err := w.Pub.Publish(context.Background(), &pubsubpb.PublishRequest{Topic: c11Topic, Messages: []*pubsubpb.PubsubMessage{{Data: payloadOf(10), OrderingKey: "k"}, {Data: payloadOf(10), OrderingKey: "k"}}}); err != nil {
					return err
				}
				return c10Pull(w, c10SubOrd)
			},
			client: func(conn *memConn, got <-chan uuid.UUID, w *world.World) {
				w.Sub.Acknowledge(cctx(), &pubsubpb.AcknowledgeRequest{Subscription: c10SubOrd, AckIds: c10Ack[c10SubOrd]})
			}},
		{name: "stream waiter on the dead-letter topic: a pull on the source forwards", fc: wide, sub: c10SubD, want: 1,
			prep: func(w *world.World) error {
				if _, err := w.Pub.Publish(context.Background(), &pubsubpb.PublishRequest{Topic: c11Topic, Messages: []*pubsubpb.PubsubMessage{{Data: payloadOf(10)}}}); err != nil {
					return err
				}
				if err := c10Pull(w, c10SubSrc); err != nil {
					return err
				}
				// due again with its only attempt used up: the next pull retires and forwards it
				_, err := w.Sub.ModifyAckDeadline(context.Background(), &pubsubpb.ModifyAckDeadlineRequest{Subscription: c10SubSrc, AckIds: c10Ack[c10SubSrc], AckDeadlineSeconds: 0})
				return err
			},
			client: func(conn *memConn, got <-chan uuid.UUID, w *world.World) {
				w.Sub.Pull(cctx(), &pubsubpb.PullRequest{Subscription: c10SubSrc, MaxMessages: 10, ReturnImmediately: true})
			}},
		// another consumer of the SAME subscription comes and goes while this stream
		// waits (a second stream that the client hangs up on at once): the waiting
		// stream's registration must survive that
		{name: "stream waiter: a second stream on the subscription ends, then publish", fc: wide, want: 1, warm: true, boundQuick: 1, boundThorough: 2,
			client: func(conn *memConn, got <-chan uuid.UUID, w *world.World) {
				var idStr string
				if err := w.DB.QueryRow("SELECT id FROM subscriptions WHERE name = ?", c11Sub).Scan(&idStr); err != nil {
					return
				}
				id := uuid.MustParse(idStr)
				other := &actions.MessageStreamer{Client: w.Client, SubscriptionID: &id, SubscriptionName: c11Sub, AutomaticNack: true}
				_ = other.Go(vsql.WithThread(context.Background(), "stream2"), &hangUpConn{fc: &actions.FlowControl{MaxMessages: 10, MaxBytes: 100000}})
				w.Pub.Publish(cctx(), &pubsubpb.PublishRequest{Topic: c11Topic, Messages: []*pubsubpb.PubsubMessage{{Data: payloadOf(10)}}})
			}},
		{name: "stream waiter: seek re-opens a message", fc: wide, npub: 1, want: 1,
			prep: func(w *world.World) error {
				if err := c10Pull(w, c11Sub); err != nil {
					return err
				}
				_, err := w.Sub.Acknowledge(context.Background(), &pubsubpb.AcknowledgeRequest{Subscription: c11Sub, AckIds: c10Ack[c11Sub]})
				return err
			},
			client: func(conn *memConn, got <-chan uuid.UUID, w *world.World) {
				w.Sub.Seek(cctx(), &pubsubpb.SeekRequest{Subscription: c11Sub, Target: &pubsubpb.SeekRequest_Time{Time: timestamppb.New(time.Unix(1, 0))}})
			}},
	}
}

func c11Scripts() []c11Script {
	return []c11Script{
		{name: "stream nack frees capacity", fc: actions.FlowControl{MaxMessages: 1, MaxBytes: 1000}, npub: 2, client: func(conn *memConn, got <-chan uuid.UUID, w *world.World) {
			id := <-got
			conn.settle(id)
			conn.reqs <- &actions.MessageStreamRequest{Nack: []uuid.UUID{id}}
		}},
		{name: "stream ack frees capacity", fc: actions.FlowControl{MaxMessages: 1, MaxBytes: 1000}, npub: 2, client: func(conn *memConn, got <-chan uuid.UUID, w *world.World) {
			id := <-got
			conn.settle(id)
			conn.reqs <- &actions.MessageStreamRequest{Ack: []uuid.UUID{id}}
		}},
		{name: "stream zero-deadline frees capacity", fc: actions.FlowControl{MaxMessages: 1, MaxBytes: 1000}, npub: 2, client: func(conn *memConn, got <-chan uuid.UUID, w *world.World) {
			id := <-got
			conn.settle(id)
			conn.reqs <- &actions.MessageStreamRequest{Delay: []uuid.UUID{id}, DelaySeconds: 0}
		}},
		{name: "flow control raised", fc: actions.FlowControl{MaxMessages: 1, MaxBytes: 1000}, npub: 2, limit: 2, client: func(conn *memConn, got <-chan uuid.UUID, w *world.World) {
			<-got
			conn.reqs <- &actions.MessageStreamRequest{FlowControl: &actions.FlowControl{MaxMessages: 2, MaxBytes: 1000}}
		}},
		{name: "external Acknowledge frees capacity", fc: actions.FlowControl{MaxMessages: 1, MaxBytes: 1000}, npub: 2, client: func(conn *memConn, got <-chan uuid.UUID, w *world.World) {
			id := <-got
			conn.settle(id)
			w.Sub.Acknowledge(vsql.WithThread(context.Background(), "client"), &pubsubpb.AcknowledgeRequest{Subscription: c11Sub, AckIds: []string{id.String()}})
		}},
	}
}

// twoWakeUps: the stream is blocked by flow control (1 message, d1 outstanding,
// m2 queued); a publish and an external Acknowledge of d1 land in quick
// succession.  Whatever the interleaving of the two commits with the streamer's
// refresh pass, m2 must be sent.
func twoWakeUps(name string) c11Script {
	return c11Script{name: name, fc: actions.FlowControl{MaxMessages: 1, MaxBytes: 1000}, npub: 2, want: 2, warm: true, boundQuick: 2, boundThorough: 3,
		client: func(conn *memConn, got <-chan uuid.UUID, w *world.World) {
			<-conn.share
			w.Pub.Publish(vsql.WithThread(context.Background(), "client"), &pubsubpb.PublishRequest{Topic: c11Topic, Messages: []*pubsubpb.PubsubMessage{{Data: payloadOf(10)}}})
		},
		client2: func(conn *memConn, got <-chan uuid.UUID, w *world.World) {
			id := <-conn.share
			conn.settle(id)
			w.Sub.Acknowledge(vsql.WithThread(context.Background(), "client2"), &pubsubpb.AcknowledgeRequest{Subscription: c11Sub, AckIds: []string{id.String()}})
		}}
}

func c11Interleavings(t *testing.T, tier string, deadline time.Time) (map[string]any, []report.Viol, error) {
	scripts := append(c11Scripts(), twoWakeUps("publish and external Acknowledge in quick succession"),
		// the redelivery that a zero-deadline nack causes counts against flow control
		// again: with limit 2 only ONE of two further messages may be sent while the
		// client holds it
		c11Script{name: "zero-deadline nack, redelivery, then two publishes (limit 2)", fc: actions.FlowControl{MaxMessages: 2, MaxBytes: 1000}, npub: 1, want: 1,
			client: func(conn *memConn, got <-chan uuid.UUID, w *world.World) {
				id := <-got
				conn.settle(id)
				conn.reqs <- &actions.MessageStreamRequest{Delay: []uuid.UUID{id}, DelaySeconds: 0}
				<-got // the redelivery (the sender was waiting for messages, not for capacity)
				w.Pub.Publish(vsql.WithThread(context.Background(), "client"), &pubsubpb.PublishRequest{Topic: c11Topic, Messages: []*pubsubpb.PubsubMessage{{Data: payloadOf(10)}, {Data: payloadOf(10)}}})
			}},
		// how the Google client library works: limit 2, both outstanding messages
		// acknowledged by ONE external Acknowledge, two more must follow
		c11Script{name: "limit 2, one external Acknowledge of both outstanding messages", fc: actions.FlowControl{MaxMessages: 2, MaxBytes: 10_000_000}, npub: 4, want: 4, warm: true, warmN: 2,
			client: func(conn *memConn, got <-chan uuid.UUID, w *world.World) {
				a, b := <-conn.share, <-conn.share
				conn.settle(a, b)
				w.Sub.Acknowledge(vsql.WithThread(context.Background(), "client"), &pubsubpb.AcknowledgeRequest{Subscription: c11Sub, AckIds: []string{a.String(), b.String()}})
			}},
		// ... and the two acknowledged one after the other by two clients
		c11Script{name: "limit 2, two external Acknowledges racing", fc: actions.FlowControl{MaxMessages: 2, MaxBytes: 10_000_000}, npub: 4, want: 4, warm: true, warmN: 2,
			client: func(conn *memConn, got <-chan uuid.UUID, w *world.World) {
				a := <-conn.share
				conn.settle(a)
				w.Sub.Acknowledge(vsql.WithThread(context.Background(), "client"), &pubsubpb.AcknowledgeRequest{Subscription: c11Sub, AckIds: []string{a.String()}})
			},
			client2: func(conn *memConn, got <-chan uuid.UUID, w *world.World) {
				b := <-conn.share
				conn.settle(b)
				w.Sub.Acknowledge(vsql.WithThread(context.Background(), "client2"), &pubsubpb.AcknowledgeRequest{Subscription: c11Sub, AckIds: []string{b.String()}})
			}},
	)
	return streamInterleavings(t, "C11", scripts, tier, deadline)
}

func c10Interleavings(t *testing.T, tier string, deadline time.Time) (map[string]any, []report.Viol, error) {
	return streamInterleavings(t, "C10", append(c10StreamScripts(), twoWakeUps("stream blocked by flow control: publish and external Acknowledge in quick succession")), tier, deadline)
}

func streamInterleavings(t *testing.T, prop string, scripts []c11Script, tier string, deadline time.Time) (map[string]any, []report.Viol, error) {
	bound := 2
	if tier == "thorough" {
		bound = 3
	}
	per := map[string]any{}
	var viols []report.Viol
	total, decisions := 0, 0
	complete := true
	var ferr error
	synctest.Test(t, func(t *testing.T) {
		w, err := world.Open()
		if err != nil {
			ferr = err
			return
		}
		defer w.Close()
		w.SeqTick = false
		bctx := context.Background()
		if _, err := w.Pub.CreateTopic(bctx, &pubsubpb.Topic{Name: c11Topic}); err != nil {
			ferr = err
			return
		}
		if _, err := w.Sub.CreateSubscription(bctx, &pubsubpb.Subscription{Name: c11Sub, Topic: c11Topic}); err != nil {
			ferr = err
			return
		}
		if prop == "C10" {
			if _, err := w.Pub.CreateTopic(bctx, &pubsubpb.Topic{Name: c10TopicD}); err != nil {
				ferr = err
				return
			}
			for _, sub := range []*pubsubpb.Subscription{
				{Name: c10Sub2, Topic: c11Topic},
				{Name: c10SubOrd, Topic: c11Topic, EnableMessageOrdering: true},
				{Name: c10SubSrc, Topic: c11Topic, DeadLetterPolicy: &pubsubpb.DeadLetterPolicy{DeadLetterTopic: c10TopicD, MaxDeliveryAttempts: 1}},
				{Name: c10SubD, Topic: c10TopicD},
			} {
				if _, err := w.Sub.CreateSubscription(bctx, sub); err != nil {
					ferr = err
					return
				}
			}
		}
		for _, sc := range scripts {
			sc := sc
			if sc.sub == "" {
				sc.sub = c11Sub
			}
			if sc.want == 0 {
				sc.want = sc.npub
			}
			var idStr string
			if err := w.DB.QueryRow("SELECT id FROM subscriptions WHERE name = ?", sc.sub).Scan(&idStr); err != nil {
				ferr = err
				return
			}
			subID := uuid.MustParse(idStr)
			if only := os.Getenv("VERIF_SCEN"); only != "" && only != sc.name {
				continue
			}
			// base state: npub messages published
			w.SetExtra(nil)
			w.SeqTick = true
			w.DB.Exec("DELETE FROM deliveries")
			w.DB.Exec("DELETE FROM messages")
			for i := 0; i < sc.npub; i++ {
				if _, err := w.Pub.Publish(bctx, &pubsubpb.PublishRequest{Topic: c11Topic, Messages: []*pubsubpb.PubsubMessage{{Data: payloadOf(10)}}}); err != nil {
					ferr = err
					return
				}
			}
			if sc.prep != nil {
				if err := sc.prep(w); err != nil {
					ferr = fmt.Errorf("%s: %w", sc.name, err)
					return
				}
			}
			w.SeqTick = false
			base, _ := w.Dump()
			exec := func(prefix []int, expect []sched.Point) ([]sched.Point, []int, string, error) {
				if err := w.Restore(base); err != nil {
					return nil, nil, "", err
				}
				var vmu sync.Mutex
				out := map[string]int{}
				settled := map[string]bool{}
				verdict := ""
				curMax := sc.fc.MaxMessages
				if sc.limit > 0 {
					curMax = sc.limit
				}
				got := make(chan uuid.UUID, 16)
				conn := &memConn{reqs: make(chan *actions.MessageStreamRequest), share: make(chan uuid.UUID, 16)}
				sends := 0
				conn.onSend = func(d *actions.SubscriptionMessageDelivery) {
					vmu.Lock()
					defer vmu.Unlock()
					sends++
					out[d.ID.String()] = len(d.Payload)
					// a message that is sent AGAIN after the client settled it (nack) is
					// held by the client again
					delete(settled, d.ID.String())
					n := 0
					for id := range out {
						if !settled[id] {
							n++
						}
					}
					if n > curMax {
						verdict = fmt.Sprintf("VIOLATION %d messages outstanding, limit %d", n, curMax)
					}
					select {
					case got <- d.ID:
					default:
					}
				}
				conn.settle = func(ids ...uuid.UUID) {
					vmu.Lock()
					for _, id := range ids {
						settled[id.String()] = true
					}
					vmu.Unlock()
				}
				w.SetExtra(txGateHook)
				r := sched.NewRun()
				r.RoleThreads = true
				ctx, cancel := context.WithCancel(vsql.WithThread(context.Background(), "stream"))
				done := make(chan error, 1)
				ms := &actions.MessageStreamer{Client: w.Client, SubscriptionID: &subID, SubscriptionName: sc.sub, AutomaticNack: true}
				if sc.warm {
					r.SetFree(true)
					r.Go("streamer", func() { done <- ms.Go(ctx, conn) })
					conn.reqs <- &actions.MessageStreamRequest{FlowControl: &actions.FlowControl{MaxMessages: sc.fc.MaxMessages, MaxBytes: sc.fc.MaxBytes}}
					if sc.warmN > 0 {
						for i := 0; i < sc.warmN; i++ {
							conn.share <- <-got
						}
					} else if sc.npub > 0 {
						id := <-got
						conn.share <- id
						conn.share <- id
					}
					synctest.Wait()
					r.SetFree(false)
					r.Go("client", func() { sc.client(conn, got, w) })
				} else {
					r.Go("streamer", func() { done <- ms.Go(ctx, conn) })
					r.Go("client", func() {
						conn.reqs <- &actions.MessageStreamRequest{FlowControl: &actions.FlowControl{MaxMessages: sc.fc.MaxMessages, MaxBytes: sc.fc.MaxBytes}}
						sc.client(conn, got, w)
					})
				}
				if sc.client2 != nil {
					r.Go("client2", func() { sc.client2(conn, got, w) })
				}
				err := r.RunToQuiescence(prefix, expect)
				if err == nil && verdict == "" {
					// no-stall: everything published must have been sent by now (each
					// script frees / raises capacity for the second message)
					vmu.Lock()
					sent := len(out)
					nSends := sends
					vmu.Unlock()
					if sc.wantSends > 0 && r.Done("client") && nSends < sc.wantSends {
						verdict = fmt.Sprintf("VIOLATION the client gave the message back (zero deadline, sent after an extension of the same id) but it was not delivered again: %d Send calls, want %d", nSends, sc.wantSends)
					} else if !r.Done("client") {
						verdict = "VIOLATION the client could not deliver its request to the stream (reader stuck)"
					} else if sent < sc.want && prop == "C10" {
						verdict = fmt.Sprintf("VIOLATION lost wake-up: the stream sent %d of %d messages although the change that makes a message deliverable has committed and no time has passed", sent, sc.want)
					} else if sent < sc.want {
						verdict = fmt.Sprintf("VIOLATION stall: %d of %d deliverable messages were sent although the client freed / raised its capacity and nothing else is pending", sent, sc.want)
					} else {
						verdict = "ok"
					}
				}
				r.Release()
				w.SetExtra(nil)
				cancel()
				select {
				case <-done:
				case <-time.After(time.Hour):
					if err == nil {
						verdict = "VIOLATION the streamer did not stop after its context was cancelled"
					}
				}
				synctest.Wait()
				actions.WakeAllInternal()
				r.Finish()
				return r.Points, r.Choices, verdict, err
			}
			bound := bound
			if tier != "thorough" && sc.boundQuick > 0 {
				bound = sc.boundQuick
			}
			if tier == "thorough" && sc.boundThorough > 0 {
				bound = sc.boundThorough
			}
			res, err := sched.Explore(exec, bound, 0, func() bool { return report.RealNow().After(deadline) })
			if err != nil {
				ferr = fmt.Errorf("%s: %w", sc.name, err)
				return
			}
			total += res.Executions
			decisions += res.Decisions
			ok := res.Complete
			for _, v := range res.Violations {
				same := 0
				for k := 0; k < 5; k++ {
					_, _, vd, err := exec(v.Choices, nil)
					if err == nil && vd == v.Verdict {
						same++
					}
				}
				if same == 5 {
					viols = append(viols, report.Viol{Property: prop, Check: prop + "/interleavings: " + sc.name, Rule: "schedule", Text: v.Verdict, Trace: []string{fmt.Sprint(v.Choices)}})
				} else {
					ok = false
				}
			}
			complete = complete && ok
			per[sc.name] = map[string]any{"schedules": res.Executions, "decisions": res.Decisions, "preemption_bound": bound, "complete": ok, "diverged": res.Diverged, "outcomes": res.Outcomes}
			if res.DivergedExample != "" {
				fmt.Printf("  first divergence: %.600s\n", res.DivergedExample)
			}
			fmt.Printf(prop+"/interleavings %s: schedules=%d bound=%d complete=%v diverged=%d outcomes=%v\n", sc.name, res.Executions, bound, ok, res.Diverged, res.Outcomes)
		}
	})
	return map[string]any{"interleaving_scenarios": per, "interleaving_schedules": total, "interleaving_decisions": decisions, "interleavings_complete": complete}, viols, ferr
}

// C04 on the stream: requests of one client are applied in the order they were
// sent - an extension followed by a zero deadline for the same id gives the
// message back, whatever the interleaving of the two transactions with the
// sender's fetch.
func c04StreamScripts() []c11Script {
	return []c11Script{
		{name: "stream: extend then zero deadline for one id", fc: actions.FlowControl{MaxMessages: 10, MaxBytes: 1000}, npub: 1, want: 1, wantSends: 2,
			client: func(conn *memConn, got <-chan uuid.UUID, w *world.World) {
				id := <-got
				conn.reqs <- &actions.MessageStreamRequest{Delay: []uuid.UUID{id}, DelaySeconds: 30}
				conn.settle(id)
				conn.reqs <- &actions.MessageStreamRequest{Delay: []uuid.UUID{id}, DelaySeconds: 0}
			}},
		{name: "stream: zero deadline then extend for one id", fc: actions.FlowControl{MaxMessages: 10, MaxBytes: 1000}, npub: 1, want: 1, wantSends: 2,
			client: func(conn *memConn, got <-chan uuid.UUID, w *world.World) {
				id := <-got
				conn.settle(id)
				conn.reqs <- &actions.MessageStreamRequest{Delay: []uuid.UUID{id}, DelaySeconds: 0}
				// (the redelivery is attempt 2; extending it afterwards must not undo the give-back)
				<-got
			}},
	}
}

func init() {
	c11Layer2 = c11Interleavings
	c10StreamLayer = c10Interleavings
	addExtra("C04", func(t *testing.T, tier string) (map[string]any, []report.Viol, error) {
		cov, v, err := streamInterleavings(t, "C04", c04StreamScripts(), tier, report.RealNow().Add(schedBudget(tier)))
		out := map[string]any{}
		for k, x := range cov {
			out["stream_"+k] = x
		}
		return out, v, err
	})
}

// hangUpConn: a client that sends its flow-control settings and hangs up.
type hangUpConn struct {
	fc   *actions.FlowControl
	sent bool
}

func (c *hangUpConn) Close() error { return nil }
func (c *hangUpConn) Receive(ctx context.Context) (*actions.MessageStreamRequest, error) {
	if !c.sent {
		c.sent = true
		return &actions.MessageStreamRequest{FlowControl: c.fc}, nil
	}
	return nil, io.EOF
}
func (c *hangUpConn) Send(ctx context.Context, d *actions.SubscriptionMessageDelivery) error {
	return nil
}
