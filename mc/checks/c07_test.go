package checks

import (
	"fmt"
	"runtime"
	"sort"
	"strings"
	"sync"
	"testing"
	"time"

	"go.6river.tech/mmmbbb/filter"

	"verif/mc/filt"
	"verif/mc/report"
)

// parallelFor runs f(i) for i in [0,n) on all cores.
func parallelFor(n int, f func(i int)) {
	var wg sync.WaitGroup
	w := runtime.NumCPU()
	ch := make(chan int, 1024)
	for k := 0; k < w; k++ {
		wg.Add(1)
		go func() {
			defer wg.Done()
			for i := range ch {
				f(i)
			}
		}()
	}
	for i := 0; i < n; i++ {
		ch <- i
	}
	close(ch)
	wg.Wait()
}

type violSink struct {
	mu   sync.Mutex
	list []report.Viol
	n    int
	seen map[string]bool
}

func (s *violSink) add(v report.Viol) {
	s.mu.Lock()
	defer s.mu.Unlock()
	k := v.Rule + "|" + v.Text
	if s.seen == nil {
		s.seen = map[string]bool{}
	}
	if s.seen[k] {
		return
	}
	s.seen[k] = true
	s.n++
	if len(s.list) < 200 {
		s.list = append(s.list, v)
	}
}

func basics(names, values []string) []*filt.Node {
	var out []*filt.Node
	for _, n := range names {
		out = append(out, filt.H(n))
		for _, v := range values {
			out = append(out, filt.E(n, v), filt.NE(n, v), filt.P(n, v))
		}
	}
	return out
}

func terms(bs []*filt.Node) []*filt.Node {
	out := make([]*filt.Node, 0, 2*len(bs))
	for _, b := range bs {
		out = append(out, b, filt.N(b))
	}
	return out
}

// allMaps: every attribute map over names x (absent + values).
func allMaps(names []string, vals []string) []map[string]string {
	out := []map[string]string{{}}
	for _, n := range names {
		var next []map[string]string
		for _, m := range out {
			next = append(next, m)
			for _, v := range vals {
				c := map[string]string{}
				for k, x := range m {
					c[k] = x
				}
				c[n] = v
				next = append(next, c)
			}
		}
		out = next
	}
	return out
}

// implEval parses text with the repository parser and evaluates on every map.
// It returns a bitmask string ('1','0','E' per map) or a parse error.
func implEval(text string, maps []map[string]string) (string, error) {
	f, err := filter.Parser.ParseString("", text)
	if err != nil {
		return "", err
	}
	var b strings.Builder
	for _, m := range maps {
		r, err := f.Evaluate(m)
		switch {
		case err != nil:
			b.WriteByte('E')
		case r:
			b.WriteByte('1')
		default:
			b.WriteByte('0')
		}
	}
	return b.String(), nil
}

func refEval(n *filt.Node, maps []map[string]string) string {
	var b strings.Builder
	for _, m := range maps {
		switch n.Eval(m, filt.DontCare) {
		case filt.True:
			b.WriteByte('1')
		case filt.False:
			b.WriteByte('0')
		default:
			b.WriteByte('?')
		}
	}
	return b.String()
}

func agree(impl, ref string) bool {
	if len(impl) != len(ref) {
		return false
	}
	for i := range ref {
		if ref[i] != '?' && impl[i] != ref[i] {
			return false
		}
	}
	return true
}

func safeImplEval(text string, maps []map[string]string) (res string, err error) {
	defer func() {
		if p := recover(); p != nil {
			err = fmt.Errorf("PANIC: %v", p)
		}
	}()
	return implEval(text, maps)
}

func init() {
	otherChecks["C07"] = runC07
}

func runC07(t *testing.T, tier string) int {
	t0 := time.Now()
	names := []string{"a", "b", "a b"}
	values := []string{"", "a", "ab"}
	if tier == "thorough" {
		names = []string{"a", "b", "a b", "é", "AND"}
	}
	// "A": values (and, thorough, names) that differ from a literal only in letter case
	mapVals := []string{"", "a", "ab", "b", "A"}
	if tier == "thorough" {
		names = append(names, "A")
	}
	maps := allMaps(names, mapVals)
	bs := basics(names, values)
	ts := terms(bs)
	styles := []filt.Style{{}, {Dash: true, QuoteNames: true, Space: "\t\n "}, {Tight: true, Dash: true}}
	sink := &violSink{}
	var evals, filters, dontCares int64
	var mu sync.Mutex
	outcomes := map[string]bool{}
	check := func(n *filt.Node, style filt.Style) {
		text := n.Render(style)
		ref := refEval(n, maps)
		impl, err := safeImplEval(text, maps)
		mu.Lock()
		filters++
		evals += int64(len(maps))
		if strings.Contains(ref, "?") {
			dontCares++
		}
		if len(outcomes) < 100000 {
			outcomes[ref] = true
		}
		mu.Unlock()
		if err != nil {
			sink.add(report.Viol{Property: "C07", Check: "C07/reference", Rule: "valid-filter-rejected", Text: fmt.Sprintf("valid filter not accepted / not total: %v", err), Trace: []string{text}})
			return
		}
		if !agree(impl, ref) {
			// find first differing map
			for i := range ref {
				if ref[i] != '?' && impl[i] != ref[i] {
					sink.add(report.Viol{Property: "C07", Check: "C07/reference", Rule: "filter-semantics", Text: fmt.Sprintf("filter %q on attributes %v: implementation says %c, documented semantics say %c", text, maps[i], impl[i], ref[i]), Trace: []string{text, fmt.Sprint(maps[i])}})
					break
				}
			}
		}
	}
	// --- shapes with up to 3 basics (thorough: the 3-chain only over the reduced
	// vocabulary to stay tractable, plus 4-chains over a 1-name vocabulary)
	chainTerms := ts
	if tier == "thorough" {
		chainTerms = terms(basics([]string{"a", "b", "a b"}, values))
	}
	type job struct {
		n *filt.Node
		s int
	}
	var jobs []job
	add := func(n *filt.Node) {
		for si := range styles {
			if si > 0 && len(jobs)%7 != 0 && tier != "thorough" {
				continue // style variants on every 7th filter in the quick tier
			}
			jobs = append(jobs, job{n, si})
		}
	}
	for _, a := range ts {
		add(a)
		add(filt.Par(a))
		add(filt.N(filt.Par(a)))
	}
	for _, a := range ts {
		for _, b := range ts {
			add(filt.AndOf(a, b))
			add(filt.OrOf(a, b))
		}
	}
	small := terms(basics([]string{"a", "b"}, []string{"", "a"}))
	for _, a := range small {
		for _, b := range small {
			for _, c := range ts {
				// parenthesised pairs combined with a third term, both associations
				add(filt.AndOf(filt.Par(filt.OrOf(a, b)), c))
				add(filt.OrOf(c, filt.N(filt.Par(filt.AndOf(a, b)))))
				add(filt.N(filt.Par(filt.OrOf(a, filt.Par(filt.AndOf(b, c))))))
			}
		}
	}
	// 3-chains
	for _, a := range chainTerms {
		for _, b := range chainTerms {
			for _, c := range chainTerms {
				jobs = append(jobs, job{filt.AndOf(a, b, c), 0}, job{filt.OrOf(a, b, c), 0})
			}
		}
	}
	if tier == "thorough" {
		four := terms(basics([]string{"a", "b"}, []string{"", "a"}))
		for _, a := range four {
			for _, b := range four {
				for _, c := range four {
					for _, dd := range four {
						jobs = append(jobs, job{filt.AndOf(a, b, c, dd), 0}, job{filt.OrOf(a, filt.Par(filt.AndOf(b, c)), dd), 0})
					}
				}
			}
		}
	}
	parallelFor(len(jobs), func(i int) { check(jobs[i].n, styles[jobs[i].s]) })

	// --- boolean laws on the implementation alone (no reference involved)
	var laws int64
	lawCheck := func(name string, l, r *filt.Node) {
		lt, rt := l.Render(filt.Style{}), r.Render(filt.Style{})
		le, err1 := safeImplEval(lt, maps)
		re, err2 := safeImplEval(rt, maps)
		mu.Lock()
		laws++
		mu.Unlock()
		if err1 != nil || err2 != nil {
			sink.add(report.Viol{Property: "C07", Check: "C07/laws", Rule: "law-not-total", Text: fmt.Sprintf("%s: %v / %v", name, err1, err2), Trace: []string{lt, rt}})
			return
		}
		// `!=` on an absent attribute is pinned by neither side, but both sides
		// contain the same basics, so the law must still hold for the
		// implementation's own reading – except where negation meets that open cell
		if le != re {
			if strings.Contains(refEval(l, maps), "?") {
				return
			}
			sink.add(report.Viol{Property: "C07", Check: "C07/laws", Rule: "boolean-law", Text: fmt.Sprintf("%s violated: %q and %q differ on some attribute map (%s vs %s)", name, lt, rt, le, re), Trace: []string{lt, rt}})
		}
	}
	type lawJob struct {
		name string
		l, r *filt.Node
	}
	var lj []lawJob
	for _, a := range ts {
		lj = append(lj, lawJob{"double negation", filt.N(filt.Par(filt.N(filt.Par(a)))), a})
		for _, b := range ts {
			lj = append(lj,
				lawJob{"De Morgan AND", filt.N(filt.Par(filt.AndOf(a, b))), filt.OrOf(filt.N(filt.Par(a)), filt.N(filt.Par(b)))},
				lawJob{"De Morgan OR", filt.N(filt.Par(filt.OrOf(a, b))), filt.AndOf(filt.N(filt.Par(a)), filt.N(filt.Par(b)))},
				lawJob{"commutativity AND", filt.AndOf(a, b), filt.AndOf(b, a)},
				lawJob{"commutativity OR", filt.OrOf(a, b), filt.OrOf(b, a)},
			)
		}
	}
	for _, a := range small {
		for _, b := range small {
			for _, c := range small {
				lj = append(lj,
					lawJob{"associativity AND", filt.AndOf(filt.Par(filt.AndOf(a, b)), c), filt.AndOf(a, filt.Par(filt.AndOf(b, c)))},
					lawJob{"flattening AND", filt.AndOf(filt.Par(filt.AndOf(a, b)), c), filt.AndOf(a, b, c)},
					lawJob{"associativity OR", filt.OrOf(filt.Par(filt.OrOf(a, b)), c), filt.OrOf(a, filt.Par(filt.OrOf(b, c)))},
					lawJob{"flattening OR", filt.OrOf(a, filt.Par(filt.OrOf(b, c))), filt.OrOf(a, b, c)},
				)
			}
		}
	}
	parallelFor(len(lj), func(i int) { lawCheck(lj[i].name, lj[i].l, lj[i].r) })

	// --- end to end: filters installed on real subscriptions
	e2e, e2eViol := c07EndToEnd(t, tier)
	for _, v := range e2eViol {
		sink.add(v)
	}

	samples := []any{}
	for i := 0; i < len(jobs) && len(samples) < 5; i += len(jobs)/5 + 1 {
		samples = append(samples, map[string]any{"filter": jobs[i].n.Render(styles[jobs[i].s]), "truth_table_over_maps": refEval(jobs[i].n, maps)})
	}
	distinct := len(outcomes)
	cov := map[string]any{
		"evaluations":                     evals + laws*int64(2*len(maps)) + int64(e2e["publishes"]),
		"distinct_nontrivial":             distinct,
		"rule":                            "every filter AST of the stated shapes over the vocabulary, rendered in up to 3 surface styles, parsed by filter.Parser and evaluated on every attribute map over the vocabulary; non-trivial/distinct = number of distinct reference truth tables (over all maps) among the enumerated filters",
		"samples":                         samples,
		"filters":                         filters,
		"attribute_maps":                  len(maps),
		"laws_checked":                    laws,
		"filters_touching_dont_care_cell": dontCares,
		"end_to_end":                      e2e,
		"exhaustive":                      true,
		"names":                           names,
		"values":                          values,
		"states":                          int(filters),
		"transitions":                     int(evals),
		"traces_validated_against_impl":   int(filters),
	}
	ev := report.Evidence{PropertyID: "C07", Tier: tier, Seed: report.Seed(), Level: "exploration", Coverage: cov,
		Assumptions: []string{"`attributes.k != \"v\"` with k absent is a don't-care cell", "random/fuzzed filters are outside this technique and not claimed"}}
	sort.Slice(sink.list, func(i, j int) bool { return len(sink.list[i].Trace[0]) < len(sink.list[j].Trace[0]) })
	return report.Finish(ev, sink.list, t0)
}
