package checks

import (
	"context"
	"encoding/json"
	"fmt"
	"testing"
	"testing/synctest"

	"google.golang.org/protobuf/types/known/fieldmaskpb"

	"go.6river.tech/mmmbbb/grpc/pubsubpb"

	"verif/mc/filt"
	"verif/mc/report"
	"verif/mc/world"
)

// c07EndToEnd installs filters on real subscriptions, publishes one message per
// attribute map and compares what each subscription receives with the reference.
func c07EndToEnd(t *testing.T, tier string) (map[string]int, []report.Viol) {
	stats := map[string]int{}
	var viols []report.Viol
	type group struct {
		names  []string
		values []string
		pairs  bool
	}
	groups := []group{
		{[]string{"a", "a b"}, []string{"", "a"}, false},
		{[]string{"a", "b"}, []string{"a"}, true},
	}
	if tier == "thorough" {
		groups = []group{
			{[]string{"a", "a b", "é", "AND"}, []string{"", "a", "ab"}, false},
			{[]string{"a", "b"}, []string{"", "a"}, true},
		}
	}
	synctest.Test(t, func(t *testing.T) {
		w, err := world.Open()
		if err != nil {
			t.Fatal(err)
		}
		defer w.Close()
		ctx := context.Background()
		for gi, g := range groups {
			ts := terms(basics(g.names, g.values))
			var fs []*filt.Node
			fs = append(fs, ts...)
			if g.pairs {
				for _, a := range ts {
					for _, b := range ts {
						fs = append(fs, filt.AndOf(a, b), filt.OrOf(a, filt.N(filt.Par(b))))
					}
				}
			}
			maps := allMaps(g.names, []string{"", "a", "ab", "b", "A"})
			topic := fmt.Sprintf("projects/p/topics/g%d", gi)
			if _, err := w.Pub.CreateTopic(ctx, &pubsubpb.Topic{Name: topic}); err != nil {
				t.Fatal(err)
			}
			for fi, f := range fs {
				_, err := w.Sub.CreateSubscription(ctx, &pubsubpb.Subscription{Name: fmt.Sprintf("projects/p/subscriptions/g%df%d", gi, fi), Topic: topic, Filter: f.Render(filt.Style{})})
				if err != nil {
					viols = append(viols, report.Viol{Property: "C07", Check: "C07/end-to-end", Rule: "valid-filter-rejected", Text: fmt.Sprintf("CreateSubscription with valid filter failed: %v", err), Trace: []string{f.Render(filt.Style{})}})
				}
				stats["subscriptions"]++
			}
			req := &pubsubpb.PublishRequest{Topic: topic}
			for mi, m := range maps {
				data, _ := json.Marshal(map[string]int{"i": mi})
				req.Messages = append(req.Messages, &pubsubpb.PubsubMessage{Data: data, Attributes: m})
			}
			if _, err := w.Pub.Publish(ctx, req); err != nil {
				t.Fatal(err)
			}
			stats["publishes"] += len(maps)
			// three rounds: (0) filters as created; (1) every subscription's filter replaced
			// by its neighbour's through UpdateSubscription - routing must follow the
			// CURRENT filter of the subscription, whatever it was before
			for round := 0; round < 3; round++ {
				shift := 0
				if round == 1 {
					shift = len(fs)/2 + 1
					for fi := range fs {
						nf := fs[(fi+shift)%len(fs)]
						if _, err := w.Sub.UpdateSubscription(ctx, &pubsubpb.UpdateSubscriptionRequest{
							Subscription: &pubsubpb.Subscription{Name: fmt.Sprintf("projects/p/subscriptions/g%df%d", gi, fi), Filter: nf.Render(filt.Style{Dash: true})},
							UpdateMask:   &fieldmaskpb.FieldMask{Paths: []string{"filter"}}}); err != nil {
							viols = append(viols, report.Viol{Property: "C07", Check: "C07/end-to-end", Rule: "valid-filter-rejected", Text: fmt.Sprintf("UpdateSubscription with valid filter failed: %v", err), Trace: []string{nf.Render(filt.Style{Dash: true})}})
						}
					}
					if _, err := w.Pub.Publish(ctx, req); err != nil {
						t.Fatal(err)
					}
					stats["publishes"] += len(maps)
				}
				if round == 2 {
					// (2) the same messages arrive by dead-letter forwarding: a source
					// subscription on another topic retires them after one attempt into
					// this topic; its subscribers' CURRENT filters decide exactly as for
					// a direct publish
					shift = len(fs)/2 + 1
					srcTopic := fmt.Sprintf("projects/p/topics/g%dsrc", gi)
					srcSub := fmt.Sprintf("projects/p/subscriptions/g%dsrc", gi)
					if _, err := w.Pub.CreateTopic(ctx, &pubsubpb.Topic{Name: srcTopic}); err != nil {
						t.Fatal(err)
					}
					if _, err := w.Sub.CreateSubscription(ctx, &pubsubpb.Subscription{Name: srcSub, Topic: srcTopic, DeadLetterPolicy: &pubsubpb.DeadLetterPolicy{DeadLetterTopic: topic, MaxDeliveryAttempts: 1}}); err != nil {
						t.Fatal(err)
					}
					sreq := &pubsubpb.PublishRequest{Topic: srcTopic, Messages: req.Messages}
					if _, err := w.Pub.Publish(ctx, sreq); err != nil {
						t.Fatal(err)
					}
					stats["publishes"] += len(maps)
					var ids []string
					for {
						resp, err := w.Sub.Pull(ctx, &pubsubpb.PullRequest{Subscription: srcSub, MaxMessages: 1000, ReturnImmediately: true})
						if err != nil {
							t.Fatal(err)
						}
						if len(resp.ReceivedMessages) == 0 {
							break
						}
						for _, rm := range resp.ReceivedMessages {
							ids = append(ids, rm.AckId)
						}
					}
					if len(ids) != len(maps) {
						t.Fatalf("source subscription delivered %d of %d", len(ids), len(maps))
					}
					if _, err := w.Sub.ModifyAckDeadline(ctx, &pubsubpb.ModifyAckDeadlineRequest{Subscription: srcSub, AckIds: ids, AckDeadlineSeconds: 0}); err != nil {
						t.Fatal(err)
					}
					// the next pulls retire (and forward) instead of delivering
					for i := 0; i < len(maps)+2; i++ {
						resp, err := w.Sub.Pull(ctx, &pubsubpb.PullRequest{Subscription: srcSub, MaxMessages: 1000, ReturnImmediately: true})
						if err != nil {
							t.Fatal(err)
						}
						if len(resp.ReceivedMessages) != 0 {
							t.Fatalf("source subscription delivered a second attempt although max_delivery_attempts is 1")
						}
					}
					stats["forwarded"] += len(maps)
				}
				for fi, f0 := range fs {
					f := fs[(fi+shift)%len(fs)]
					_ = f0
					got := map[int]bool{}
					for {
						resp, err := w.Sub.Pull(ctx, &pubsubpb.PullRequest{Subscription: fmt.Sprintf("projects/p/subscriptions/g%df%d", gi, fi), MaxMessages: 1000, ReturnImmediately: true})
						if err != nil {
							t.Fatal(err)
						}
						if len(resp.ReceivedMessages) == 0 {
							break
						}
						for _, rm := range resp.ReceivedMessages {
							var v map[string]int
							json.Unmarshal(rm.Message.Data, &v)
							got[v["i"]] = true
						}
					}
					stats["pulls"]++
					for mi, m := range maps {
						want := f.Eval(m, filt.DontCare)
						if want == filt.DontCare {
							continue
						}
						stats["deliveries_decided"]++
						if got[mi] != (want == filt.True) {
							viols = append(viols, report.Viol{Property: "C07", Check: "C07/end-to-end", Rule: "filter-routing", Text: fmt.Sprintf("subscription with filter %q (round %d): message with attributes %v received=%v, documented semantics say %v", f.Render(filt.Style{}), round, m, got[mi], want == filt.True), Trace: []string{f.Render(filt.Style{}), fmt.Sprint(m)}})
						}
					}
				}
			}
		}
	})
	return stats, viols
}
