package checks

import (
	"bytes"
	"context"
	"fmt"
	"os"
	"os/exec"
	"sort"
	"strings"
	"sync"
	"sync/atomic"
	"testing"
	"testing/synctest"
	"time"

	"google.golang.org/grpc/codes"
	"google.golang.org/grpc/status"
	"google.golang.org/protobuf/types/known/fieldmaskpb"

	"go.6river.tech/mmmbbb/filter"
	"go.6river.tech/mmmbbb/grpc/pubsubpb"

	"verif/mc/filt"
	"verif/mc/report"
	"verif/mc/world"
)

func init() { otherChecks["C08"] = runC08 }

type implVerdict struct {
	accept bool
	f      *filter.Filter
	err    string
	panic_ bool
}

func implParse(s string) (v implVerdict) {
	defer func() {
		if p := recover(); p != nil {
			v = implVerdict{panic_: true, err: fmt.Sprint(p)}
		}
	}()
	f, err := filter.Parser.ParseString("", s)
	if err != nil {
		return implVerdict{err: err.Error()}
	}
	return implVerdict{accept: true, f: f}
}

// c08Compare checks one string: acceptance parity and, if accepted, round trip.
func c08Compare(s string, maps []map[string]string, sink *violSink, st *c08Stats) {
	ref := filt.Recognise(s)
	impl := implParse(s)
	atomic.AddInt64(&st.strings, 1)
	if impl.panic_ {
		sink.add(report.Viol{Property: "C08", Check: "C08/parse", Rule: "parser-crash", Text: "parser panicked: " + impl.err, Trace: []string{s}})
		return
	}
	if ref.DontCare {
		atomic.AddInt64(&st.dontCare, 1)
	} else if ref.Accept != impl.accept {
		rule := "accepts-non-sentence"
		if ref.Accept {
			rule = "rejects-sentence"
		}
		sink.add(report.Viol{Property: "C08", Check: "C08/parse", Rule: rule, Text: fmt.Sprintf("string %q: documented grammar accept=%v, implementation accept=%v (%s)", s, ref.Accept, impl.accept, impl.err), Trace: []string{s}})
		return
	}
	if !impl.accept {
		atomic.AddInt64(&st.rejected, 1)
		return
	}
	atomic.AddInt64(&st.accepted, 1)
	// round trip
	var b strings.Builder
	if err := impl.f.AsFilter(&b); err != nil {
		sink.add(report.Viol{Property: "C08", Check: "C08/roundtrip", Rule: "print-failed", Text: fmt.Sprintf("AsFilter of parsed %q failed: %v", s, err), Trace: []string{s}})
		return
	}
	text2 := b.String()
	impl2 := implParse(text2)
	if !impl2.accept {
		sink.add(report.Viol{Property: "C08", Check: "C08/roundtrip", Rule: "roundtrip-unparseable", Text: fmt.Sprintf("%q prints as %q which does not parse: %s", s, text2, impl2.err), Trace: []string{s, text2}})
		return
	}
	// (the property asks for an EQUIVALENT filter, not an identical syntax tree:
	// a printer may e.g. drop redundant parentheses; equivalence is decided on all
	// attribute maps below)
	for _, m := range maps {
		r1, e1 := impl.f.Evaluate(m)
		r2, e2 := impl2.f.Evaluate(m)
		if r1 != r2 || (e1 == nil) != (e2 == nil) {
			sink.add(report.Viol{Property: "C08", Check: "C08/roundtrip", Rule: "roundtrip-semantics", Text: fmt.Sprintf("%q and its printed form %q differ on %v", s, text2, m), Trace: []string{s, text2}})
			return
		}
	}
	atomic.AddInt64(&st.roundtrips, 1)
}

type c08Stats struct {
	strings, accepted, rejected, dontCare, roundtrips int64
}

var tokenClasses = []string{"attributes", "hasPrefix", "NOT", "-", "AND", "OR", "(", ")", ":", ".", "=", "!=", ",", "x", `"v"`}

func runC08(t *testing.T, tier string) int {
	if os.Getenv("VERIF_C08_BYTES") != "" {
		return c08BytesWorker()
	}
	t0 := time.Now()
	sink := &violSink{}
	st := &c08Stats{}
	maps := allMaps([]string{"x", ""}, []string{"", "v", "x"})

	// (i) all token sequences up to length L over the token classes, three joiners
	L := 5
	if tier == "thorough" {
		L = 6
	}
	joiners := []string{" ", "", "\t\n"}
	nTok := len(tokenClasses)
	total := 0
	pow := 1
	for l := 1; l <= L; l++ {
		pow *= nTok
		total += pow
	}
	var samplesMu sync.Mutex
	var samples []any
	parallelFor(total, func(idx int) {
		// decode idx -> (length, digits)
		l, base := 1, nTok
		rem := idx
		for rem >= base {
			rem -= base
			base *= nTok
			l++
		}
		toks := make([]string, l)
		for i := l - 1; i >= 0; i-- {
			toks[i] = tokenClasses[rem%nTok]
			rem /= nTok
		}
		for ji, j := range joiners {
			if ji > 0 && l > L-1 && tier != "thorough" {
				continue // the longest length only with the canonical joiner in the quick tier
			}
			s := strings.Join(toks, j)
			c08Compare(s, maps, sink, st)
			if idx%200003 == 0 && ji == 0 {
				samplesMu.Lock()
				if len(samples) < 6 {
					samples = append(samples, s)
				}
				samplesMu.Unlock()
			}
		}
	})
	tokenSeqs := st.strings

	// (ii) grammar sentences with adversarial names / strings and all single-token mutations
	idents := []string{"x", "AND", "attributes", "é", "_1"}
	strs := []string{`""`, `"x"`, `"a b"`, `"\""`, `"\n"`, `"é"`, `"AND"`}
	var sentences [][]string
	nameForms := append(append([]string{}, idents...), strs...)
	for _, n := range nameForms {
		sentences = append(sentences, []string{"attributes", ":", n})
		for _, v := range strs {
			sentences = append(sentences,
				[]string{"attributes", ".", n, "=", v},
				[]string{"attributes", ".", n, "!=", v},
				[]string{"hasPrefix", "(", "attributes", ".", n, ",", v, ")"})
		}
	}
	base1 := [][]string{{"attributes", ":", "x"}, {"attributes", ".", "x", "=", `"v"`}, {"hasPrefix", "(", "attributes", ".", `"a b"`, ",", `""`, ")"}, {"attributes", ".", `""`, "!=", `"\""`}}
	withNot := func(s []string, k int) []string {
		switch k {
		case 1:
			return append([]string{"NOT"}, s...)
		case 2:
			return append([]string{"-"}, s...)
		}
		return s
	}
	var terms2 [][]string
	for _, b := range base1 {
		for k := 0; k < 3; k++ {
			terms2 = append(terms2, withNot(b, k))
		}
	}
	join := func(parts ...[]string) []string {
		var out []string
		for _, p := range parts {
			out = append(out, p...)
		}
		return out
	}
	for _, a := range terms2 {
		sentences = append(sentences,
			join([]string{"("}, a, []string{")"}),
			join([]string{"NOT", "("}, a, []string{")"}),
			join([]string{"-", "("}, a, []string{")"}),
			join([]string{"NOT", "(", "NOT", "("}, a, []string{")", ")"}),
			join([]string{"(", "("}, a, []string{")", ")"}),
			join([]string{"attributes", ":", "k", "AND", "NOT", "("}, a, []string{")"}),
			join([]string{"NOT", "("}, a, []string{")", "OR", "-", "("}, a, []string{")"}),
		)
	}
	for _, a := range terms2 {
		for _, b := range terms2 {
			sentences = append(sentences, join(a, []string{"AND"}, b), join(a, []string{"OR"}, b),
				join([]string{"("}, a, []string{"OR"}, b, []string{")"}),
				join([]string{"NOT", "("}, a, []string{"AND"}, b, []string{")"}))
			for _, c := range terms2[:4] {
				sentences = append(sentences, join(a, []string{"AND"}, b, []string{"AND"}, c), join(a, []string{"OR"}, []string{"("}, b, []string{"AND"}, c, []string{")"}),
					join(a, []string{"AND"}, b, []string{"OR"}, c))
			}
		}
	}
	// every quoted attribute name over a small character alphabet up to length 3
	// (identifier-like, digit-leading, punctuation, space, unicode letter and
	// digit, escape-needing characters): print / re-parse must round-trip each
	nameChars := []string{"a", "1", "_", "-", " ", "é", ".", `\"`, "٣", `\\`}
	var qnames []string
	var gen func(prefix string, l int)
	gen = func(prefix string, l int) {
		if l > 0 {
			qnames = append(qnames, `"`+prefix+`"`)
		}
		if l == 3 {
			return
		}
		for _, c := range nameChars {
			gen(prefix+c, l+1)
		}
	}
	gen("", 0)
	firstName := len(sentences)
	for _, qn := range qnames {
		sentences = append(sentences,
			[]string{"attributes", ":", qn},
			[]string{"attributes", ".", qn, "=", qn},
			[]string{"NOT", "hasPrefix", "(", "attributes", ".", qn, ",", qn, ")"})
	}
	nameSentences := 3 * len(qnames)
	mutTokens := append(append([]string{}, tokenClasses...), "AND", `""`, "é", "!", "attributes:x")
	var mutated int64
	var rejectedForStore []string
	var rejMu sync.Mutex
	parallelFor(len(sentences), func(i int) {
		s := sentences[i]
		try := func(toks []string) {
			for _, j := range []string{" ", ""} {
				str := strings.Join(toks, j)
				c08Compare(str, maps, sink, st)
				atomic.AddInt64(&mutated, 1)
				if j == " " && !filt.Recognise(str).Accept && !filt.Recognise(str).DontCare {
					rejMu.Lock()
					if len(rejectedForStore) < 40000 {
						rejectedForStore = append(rejectedForStore, str)
					}
					rejMu.Unlock()
				}
			}
		}
		try(s)
		if i >= firstName && i < firstName+nameSentences {
			return // quoted-name corpus: round trip only, no token mutations
		}
		if len(s) > 12 && tier != "thorough" && i%5 != 0 {
			return // mutations of the longest sentences: every 5th in the quick tier
		}
		for p := 0; p < len(s); p++ {
			// the grammar's words are case-sensitive: every other spelling of a keyword
			switch s[p] {
			case "attributes", "hasPrefix", "AND", "OR", "NOT":
				for _, alt := range []string{strings.ToLower(s[p]), strings.ToUpper(s[p]), strings.ToUpper(s[p][:1]) + strings.ToLower(s[p][1:])} {
					if alt != s[p] {
						cs := append([]string{}, s...)
						cs[p] = alt
						try(cs)
					}
				}
			}
			// deletion
			try(append(append([]string{}, s[:p]...), s[p+1:]...))
			// adjacent swap
			if p+1 < len(s) {
				sw := append([]string{}, s...)
				sw[p], sw[p+1] = sw[p+1], sw[p]
				try(sw)
			}
			for _, mt := range mutTokens {
				// substitution
				sub := append([]string{}, s...)
				sub[p] = mt
				try(sub)
				// insertion
				ins := append(append(append([]string{}, s[:p]...), mt), s[p:]...)
				try(ins)
			}
		}
	})

	// (ii-b) white space: the lexer's white space is space, tab, CR, LF and nothing
	// else; strings padded with other "space" characters, and blank strings, are not
	// sentences - for the parser AND for the Create / Update call sites (which may
	// pre-process the string before they validate it)
	// (a leading byte-order mark is skipped by the lexer library: not pinned by the
	// documentation, left out of the pads)
	for _, base := range []string{`attributes:x`, `attributes.x="v"`, `NOT attributes:x`, `attributes:x AND attributes:y`} {
		for _, pad := range []string{"\v", "\f", "\u0085", "\u00a0", "\u2028", "\u3000", "\u200b", "\x00"} {
			for _, str := range []string{pad + base, base + pad, strings.Replace(base, ":", pad+":", 1), strings.Replace(base, " ", pad, 1)} {
				if str == base {
					continue
				}
				c08Compare(str, maps, sink, st)
				atomic.AddInt64(&mutated, 1)
				if r := filt.Recognise(str); !r.Accept && !r.DontCare {
					rejectedForStore = append(rejectedForStore, str)
				}
			}
		}
	}
	for _, blank := range []string{" ", "\t", "\n", "\r\n", " \t\n ", "\u00a0", "\v", "  "} {
		c08Compare(blank, maps, sink, st)
		atomic.AddInt64(&mutated, 1)
		rejectedForStore = append(rejectedForStore, blank)
	}

	// (ii-c) size: the grammar bounds neither the length of an AND / OR chain nor the
	// nesting depth, so every chain length up to N and every depth up to D is a
	// sentence (plain, inside a group, under NOT, and mixed with the other operator)
	chainN, depthD := 160, 40
	if tier == "thorough" {
		chainN, depthD = 1200, 120
	}
	var sized []string
	for _, op := range []string{" AND ", " OR "} {
		other := " OR "
		if op == other {
			other = " AND "
		}
		var b strings.Builder
		b.WriteString("attributes:k0")
		for n := 2; n <= chainN; n++ {
			fmt.Fprintf(&b, "%sattributes.k%d=\"v\"", op, n%7)
			c := b.String()
			sized = append(sized, c)
			if n%8 == 1 || n < 40 {
				sized = append(sized, "NOT ("+c+")"+other+"hasPrefix(attributes.x,\"v\")", "("+c+")"+other+"("+c+")", "-("+c+")")
			}
		}
	}
	for d := 1; d <= depthD; d++ {
		sized = append(sized,
			strings.Repeat("(", d)+"attributes:x"+strings.Repeat(")", d),
			strings.Repeat("NOT (", d)+"attributes:x"+strings.Repeat(")", d),
			strings.Repeat("(attributes:x AND ", d)+"attributes:v"+strings.Repeat(")", d),
			strings.Repeat("(attributes:x OR NOT ", d)+"attributes:v"+strings.Repeat(")", d))
	}
	var acceptedForStore []string
	for i, str := range sized {
		c08Compare(str, maps[:4], sink, st)
		atomic.AddInt64(&mutated, 1)
		if i%16 == 0 || len(str) > 3000 && i%4 == 0 {
			acceptedForStore = append(acceptedForStore, str)
		}
	}

	// (iii) all byte strings over a small alphabet: totality only, in worker
	// subprocesses with a watchdog (a hang or stack overflow kills only the worker)
	bytesTotal, bytesViol := c08Bytes(tier)
	for _, v := range bytesViol {
		sink.add(v)
	}

	// never stored: rejected strings through CreateSubscription / UpdateSubscription
	sort.Strings(rejectedForStore)
	stored, storeViol := c08NeverStored(t, rejectedForStore, tier)
	for _, v := range storeViol {
		sink.add(v)
	}
	// ... and sentences are accepted by both call sites and stored as given
	acceptedSent, accViol := c08AcceptedStored(t, acceptedForStore)
	for _, v := range accViol {
		sink.add(v)
	}

	if len(samples) == 0 {
		samples = append(samples, "attributes:x")
	}
	cov := map[string]any{
		"evaluations":               st.strings + int64(bytesTotal) + int64(stored),
		"distinct_nontrivial":       st.accepted,
		"rule":                      "(i) every sequence of up to L token classes joined by space / nothing / tab+newline, (ii) grammar sentences with adversarial names and strings and every single-token deletion, swap, substitution and insertion, (iii) every byte string over a 12-symbol alphabet up to length B (totality under a watchdog); distinct_nontrivial = strings accepted by the parser (each also round-tripped through AsFilter)",
		"samples":                   samples,
		"token_sequences":           tokenSeqs,
		"max_token_len":             L,
		"sentence_variants":         mutated,
		"quoted_names_roundtripped": len(qnames),
		"accepted":                  st.accepted,
		"rejected":                  st.rejected,
		"dont_care":                 st.dontCare,
		"roundtrips":                st.roundtrips,
		"byte_strings":              bytesTotal,
		"rejected_strings_sent_to_create_and_update": stored,
		"sized_sentences":                            len(sized),
		"max_chain_operands":                         chainN,
		"max_nesting_depth":                          depthD,
		"sentences_sent_to_create_and_update":        acceptedSent,
		"exhaustive": true,
	}
	ev := report.Evidence{PropertyID: "C08", Tier: tier, Seed: report.Seed(), Level: "exploration", Coverage: cov,
		Assumptions: []string{"whitespace between '!' and '=' and keyword-spelled unquoted attribute names are don't-care for acceptance", "bytes outside the enumerated alphabets are not covered (fuzzing is another technique)"}}
	sort.Slice(sink.list, func(i, j int) bool { return len(sink.list[i].Trace[0]) < len(sink.list[j].Trace[0]) })
	return report.Finish(ev, sink.list, t0)
}

var byteAlphabet = []byte{'a', '"', '\\', ':', '.', '=', '!', '(', ')', '-', ' ', 'N'}

// c08Bytes shards the byte-string enumeration over worker subprocesses.
func c08Bytes(tier string) (int, []report.Viol) {
	B := 6
	if tier == "thorough" {
		B = 7
	}
	exe, _ := os.Executable()
	n := nWorkers()
	type res struct {
		out []byte
		err error
	}
	results := make([]res, n)
	var wg sync.WaitGroup
	for i := 0; i < n; i++ {
		wg.Add(1)
		go func(i int) {
			defer wg.Done()
			ctx, cancel := context.WithTimeout(context.Background(), 20*time.Minute)
			defer cancel()
			cmd := exec.CommandContext(ctx, exe, "-test.run", "^TestCheck$", "-test.timeout", "0")
			cmd.Env = append(os.Environ(), fmt.Sprintf("VERIF_C08_BYTES=%d/%d/%d", i, n, B), "VERIF_CHECK=C08")
			var out bytes.Buffer
			cmd.Stdout = &out
			cmd.Stderr = &out
			err := cmd.Run()
			results[i] = res{out.Bytes(), err}
		}(i)
	}
	wg.Wait()
	total := 0
	var viols []report.Viol
	for i, r := range results {
		var cnt int
		ok := false
		for _, line := range strings.Split(string(r.out), "\n") {
			if strings.HasPrefix(line, "@@BYTES ") {
				fmt.Sscanf(line, "@@BYTES %d", &cnt)
				ok = true
			}
		}
		total += cnt
		if r.err != nil || !ok {
			last := ""
			for _, line := range strings.Split(string(r.out), "\n") {
				if strings.HasPrefix(line, "@@CUR ") {
					last = strings.TrimPrefix(line, "@@CUR ")
				}
			}
			tail := string(r.out)
			if len(tail) > 600 {
				tail = tail[len(tail)-600:]
			}
			viols = append(viols, report.Viol{Property: "C08", Check: "C08/bytes", Rule: "parser-crash-or-hang", Text: fmt.Sprintf("byte-string worker %d died or hung (%v); last input %s; output tail: %s", i, r.err, last, tail), Trace: []string{last}})
		}
	}
	return total, viols
}

func c08BytesWorker() int {
	var i, n, B int
	fmt.Sscanf(os.Getenv("VERIF_C08_BYTES"), "%d/%d/%d", &i, &n, &B)
	k := len(byteAlphabet)
	count := 0
	buf := make([]byte, 0, B)
	var cur atomic.Value
	cur.Store("")
	done := make(chan struct{})
	// watchdog: a single parse must not take longer than 5 s
	var progress int64
	go func() {
		lastP := int64(-1)
		for {
			select {
			case <-done:
				return
			case <-time.After(5 * time.Second):
				p := atomic.LoadInt64(&progress)
				if p == lastP {
					fmt.Printf("@@CUR %q\n", cur.Load())
					fmt.Println("watchdog: parser hung")
					os.Exit(4)
				}
				lastP = p
			}
		}
	}()
	idx := 0
	var rec func(depth int)
	rec = func(depth int) {
		if depth > 0 {
			if idx%n == i {
				s := string(buf)
				cur.Store(s)
				func() {
					defer func() {
						if p := recover(); p != nil {
							fmt.Printf("@@CUR %q\n", s)
							fmt.Println("panic:", p)
							os.Exit(5)
						}
					}()
					_, _ = filter.Parser.ParseString("", s)
				}()
				atomic.AddInt64(&progress, 1)
				count++
			}
			idx++
		}
		if depth == B {
			return
		}
		for c := 0; c < k; c++ {
			buf = append(buf, byteAlphabet[c])
			rec(depth + 1)
			buf = buf[:len(buf)-1]
		}
	}
	rec(0)
	close(done)
	fmt.Printf("@@BYTES %d\n", count)
	return 0
}

// c08NeverStored sends rejected strings through CreateSubscription and
// UpdateSubscription(filter): both must fail and nothing may be stored.
func c08NeverStored(t *testing.T, rejected []string, tier string) (int, []report.Viol) {
	var viols []report.Viol
	n := 0
	synctest.Test(t, func(t *testing.T) {
		w, err := world.Open()
		if err != nil {
			t.Fatal(err)
		}
		defer w.Close()
		w.SeqTick = false
		ctx := context.Background()
		topic := "projects/p/topics/t"
		if _, err := w.Pub.CreateTopic(ctx, &pubsubpb.Topic{Name: topic}); err != nil {
			t.Fatal(err)
		}
		keep := "projects/p/subscriptions/keep"
		if _, err := w.Sub.CreateSubscription(ctx, &pubsubpb.Subscription{Name: keep, Topic: topic, Filter: "attributes:x"}); err != nil {
			t.Fatal(err)
		}
		keepNone, keepCleared := "projects/p/subscriptions/keep-none", "projects/p/subscriptions/keep-cleared"
		if _, err := w.Sub.CreateSubscription(ctx, &pubsubpb.Subscription{Name: keepNone, Topic: topic}); err != nil {
			t.Fatal(err)
		}
		if _, err := w.Sub.CreateSubscription(ctx, &pubsubpb.Subscription{Name: keepCleared, Topic: topic, Filter: "attributes:y"}); err != nil {
			t.Fatal(err)
		}
		if _, err := w.Sub.UpdateSubscription(ctx, &pubsubpb.UpdateSubscriptionRequest{Subscription: &pubsubpb.Subscription{Name: keepCleared}, UpdateMask: &fieldmaskpb.FieldMask{Paths: []string{"filter"}}}); err != nil {
			t.Fatal(err)
		}
		before, _ := w.Dump()
		for i, s := range rejected {
			if s == "" {
				continue // the empty string means "no filter"
			}
			_, err := w.Sub.CreateSubscription(ctx, &pubsubpb.Subscription{Name: fmt.Sprintf("projects/p/subscriptions/r%d", i), Topic: topic, Filter: s})
			n++
			if err == nil {
				viols = append(viols, report.Viol{Property: "C08", Check: "C08/store", Rule: "invalid-filter-stored", Text: fmt.Sprintf("CreateSubscription accepted the non-sentence %q", s), Trace: []string{s}})
				w.Sub.DeleteSubscription(ctx, &pubsubpb.DeleteSubscriptionRequest{Subscription: fmt.Sprintf("projects/p/subscriptions/r%d", i)})
				before, _ = w.Dump()
				continue
			}
			// (the subscription that is updated has a filter / never had one / had its
			// filter cleared: validation must not depend on what is stored)
			for _, target := range []string{keep, keepNone, keepCleared} {
				_, err = w.Sub.UpdateSubscription(ctx, &pubsubpb.UpdateSubscriptionRequest{Subscription: &pubsubpb.Subscription{Name: target, Filter: s}, UpdateMask: &fieldmaskpb.FieldMask{Paths: []string{"filter"}}})
				n++
				if err == nil {
					viols = append(viols, report.Viol{Property: "C08", Check: "C08/store", Rule: "invalid-filter-stored", Text: fmt.Sprintf("UpdateSubscription (of %s) accepted the non-sentence %q", target, s), Trace: []string{s, target}})
					// put the target back into its state
					w.Sub.UpdateSubscription(ctx, &pubsubpb.UpdateSubscriptionRequest{Subscription: &pubsubpb.Subscription{Name: target, Filter: map[string]string{keep: "attributes:x"}[target]}, UpdateMask: &fieldmaskpb.FieldMask{Paths: []string{"filter"}}})
					before, _ = w.Dump()
				} else if c := status.Code(err); c != codes.InvalidArgument {
					viols = append(viols, report.Viol{Property: "C08", Check: "C08/store", Rule: "invalid-filter-status", Text: fmt.Sprintf("UpdateSubscription(filter=%q) answered %v, want InvalidArgument", s, c), Trace: []string{s, target}})
				}
			}
			if i%50 == 0 || i == len(rejected)-1 {
				after, _ := w.Dump()
				if d := before.Diff(after); d != "" {
					viols = append(viols, report.Viol{Property: "C08", Check: "C08/store", Rule: "invalid-filter-stored", Text: fmt.Sprintf("tables changed although every request up to %q was rejected:\n%s", s, d), Trace: []string{s}})
					before = after
				}
			}
			if len(viols) > 20 {
				break
			}
		}
	})
	return n, viols
}

// c08AcceptedStored sends sentences of the grammar through CreateSubscription and
// UpdateSubscription(filter): both must accept them and store them as given.
func c08AcceptedStored(t *testing.T, accepted []string) (int, []report.Viol) {
	var viols []report.Viol
	n := 0
	synctest.Test(t, func(t *testing.T) {
		w, err := world.Open()
		if err != nil {
			t.Fatal(err)
		}
		defer w.Close()
		w.SeqTick = false
		ctx := context.Background()
		topic := "projects/p/topics/t"
		if _, err := w.Pub.CreateTopic(ctx, &pubsubpb.Topic{Name: topic}); err != nil {
			t.Fatal(err)
		}
		keep := "projects/p/subscriptions/keep"
		if _, err := w.Sub.CreateSubscription(ctx, &pubsubpb.Subscription{Name: keep, Topic: topic, Filter: "attributes:x"}); err != nil {
			t.Fatal(err)
		}
		for i, s := range accepted {
			if r := filt.Recognise(s); !r.Accept || r.DontCare {
				continue
			}
			name := fmt.Sprintf("projects/p/subscriptions/a%d", i)
			got, err := w.Sub.CreateSubscription(ctx, &pubsubpb.Subscription{Name: name, Topic: topic, Filter: s})
			n++
			if err != nil {
				viols = append(viols, report.Viol{Property: "C08", Check: "C08/store", Rule: "sentence-rejected", Text: fmt.Sprintf("CreateSubscription rejected a sentence of %d bytes: %v", len(s), err), Trace: []string{s}})
			} else {
				if got.Filter != s {
					viols = append(viols, report.Viol{Property: "C08", Check: "C08/store", Rule: "sentence-rejected", Text: fmt.Sprintf("CreateSubscription stored %q for the sentence given", got.Filter), Trace: []string{s}})
				}
				w.Sub.DeleteSubscription(ctx, &pubsubpb.DeleteSubscriptionRequest{Subscription: name})
			}
			_, err = w.Sub.UpdateSubscription(ctx, &pubsubpb.UpdateSubscriptionRequest{Subscription: &pubsubpb.Subscription{Name: keep, Filter: s}, UpdateMask: &fieldmaskpb.FieldMask{Paths: []string{"filter"}}})
			n++
			if err != nil {
				viols = append(viols, report.Viol{Property: "C08", Check: "C08/store", Rule: "sentence-rejected", Text: fmt.Sprintf("UpdateSubscription rejected a sentence of %d bytes: %v", len(s), err), Trace: []string{s}})
			}
			if len(viols) > 20 {
				break
			}
		}
	})
	return n, viols
}
