package checks

import (
	"context"
	"fmt"
	"testing"
	"testing/synctest"

	"go.6river.tech/mmmbbb/grpc/pubsubpb"

	"verif/mc/report"
	"verif/mc/world"
)

// C02 content fidelity: every payload / attribute map / ordering key of the
// corpus is published (singly and in one batch), pulled on a plain and on an
// ordered subscription, nacked and pulled again; id, JSON value, attributes and
// key must be what Publish was given, on first delivery and on redelivery.
func init() {
	addExtra("C02", func(t *testing.T, tier string) (map[string]any, []report.Viol, error) {
		var viols []report.Viol
		n := 0
		var ferr error
		synctest.Test(t, func(t *testing.T) {
			w, err := world.Open()
			if err != nil {
				ferr = err
				return
			}
			defer w.Close()
			ctx := context.Background()
			topic := "projects/p/topics/t"
			subs := []string{"projects/p/subscriptions/plain", "projects/p/subscriptions/ordered"}
			if _, err := w.Pub.CreateTopic(ctx, &pubsubpb.Topic{Name: topic}); err != nil {
				ferr = err
				return
			}
			for i, s := range subs {
				if _, err := w.Sub.CreateSubscription(ctx, &pubsubpb.Subscription{Name: s, Topic: topic, EnableMessageOrdering: i == 1}); err != nil {
					ferr = err
					return
				}
			}
			corpus := c19Corpus()
			check := func(what string, want map[string]c19Msg, sub string, attempt int32) {
				got := map[string]bool{}
				for {
					resp, err := w.Sub.Pull(ctx, &pubsubpb.PullRequest{Subscription: sub, MaxMessages: 1000, ReturnImmediately: true})
					if err != nil {
						ferr = err
						return
					}
					if len(resp.ReceivedMessages) == 0 {
						break
					}
					var acks []string
					for _, rm := range resp.ReceivedMessages {
						n++
						id := rm.Message.MessageId
						m, ok := want[id]
						if !ok {
							viols = append(viols, report.Viol{Property: "C02", Check: "C02/corpus", Rule: "pull-foreign", Text: fmt.Sprintf("%s: message %s was not published in this round", what, id), Trace: []string{what}})
							continue
						}
						got[id] = true
						if !jsonSame(rm.Message.Data, m.data) || !sameAttrs(rm.Message.Attributes, m.attrs) || rm.Message.OrderingKey != m.key || rm.DeliveryAttempt != attempt {
							viols = append(viols, report.Viol{Property: "C02", Check: "C02/corpus", Rule: "pull-content", Text: fmt.Sprintf("%s on %s: published data=%s attrs=%v key=%q, delivered data=%s attrs=%v key=%q attempt=%d (want %d)", what, sub, m.data, m.attrs, m.key, rm.Message.Data, rm.Message.Attributes, rm.Message.OrderingKey, rm.DeliveryAttempt, attempt), Trace: []string{string(m.data), fmt.Sprint(m.attrs), m.key}})
						}
						acks = append(acks, rm.AckId)
					}
					if attempt == 1 {
						// zero deadline: redelivered at once, with attempt 2 (checked by the next call)
						if _, err := w.Sub.ModifyAckDeadline(ctx, &pubsubpb.ModifyAckDeadlineRequest{Subscription: sub, AckIds: acks, AckDeadlineSeconds: 0}); err != nil {
							ferr = err
							return
						}
						break
					}
					if _, err := w.Sub.Acknowledge(ctx, &pubsubpb.AcknowledgeRequest{Subscription: sub, AckIds: acks}); err != nil {
						ferr = err
						return
					}
				}
				if attempt == 1 && len(got) == 0 && len(want) > 0 {
					viols = append(viols, report.Viol{Property: "C02", Check: "C02/corpus", Rule: "not-offered", Text: what + ": nothing delivered", Trace: []string{what}})
				}
			}
			// one by one
			for i, m := range corpus {
				resp, err := w.Pub.Publish(ctx, &pubsubpb.PublishRequest{Topic: topic, Messages: []*pubsubpb.PubsubMessage{{Data: m.data, Attributes: m.attrs, OrderingKey: m.key}}})
				if err != nil {
					viols = append(viols, report.Viol{Property: "C02", Check: "C02/corpus", Rule: "publish-rejected", Text: fmt.Sprintf("valid JSON payload %s rejected: %v", m.data, err), Trace: []string{string(m.data)}})
					continue
				}
				want := map[string]c19Msg{resp.MessageIds[0]: m}
				for _, s := range subs {
					check(fmt.Sprintf("single #%d", i), want, s, 1)
					check(fmt.Sprintf("single #%d redelivery", i), want, s, 2)
				}
			}
			// all in one batch (un-keyed, so that the ordered subscription does not serialise them)
			req := &pubsubpb.PublishRequest{Topic: topic}
			for _, m := range corpus {
				req.Messages = append(req.Messages, &pubsubpb.PubsubMessage{Data: m.data, Attributes: m.attrs})
			}
			resp, err := w.Pub.Publish(ctx, req)
			if err != nil {
				viols = append(viols, report.Viol{Property: "C02", Check: "C02/corpus", Rule: "publish-rejected", Text: fmt.Sprintf("a batch of valid JSON payloads was rejected: %v", err), Trace: []string{"batch"}})
				return
			}
			want := map[string]c19Msg{}
			for i, id := range resp.MessageIds {
				m := corpus[i]
				m.key = ""
				want[id] = m
			}
			for _, s := range subs {
				check("batch", want, s, 1)
				check("batch redelivery", want, s, 2)
			}
		})
		return map[string]any{"payload_corpus_deliveries_compared": n, "payload_corpus_size": len(c19Corpus())}, viols, ferr
	})
}

func sameAttrs(a, b map[string]string) bool {
	if len(a) != len(b) {
		return false
	}
	for k, v := range a {
		if w, ok := b[k]; !ok || w != v {
			return false
		}
	}
	return true
}
