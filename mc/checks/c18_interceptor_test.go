//go:build verifshim

package checks

import (
	"context"
	"errors"

	"google.golang.org/grpc"

	"go.6river.tech/mmmbbb/faults"
	mbgrpc "go.6river.tech/mmmbbb/grpc"
)

// c18ViaInterceptor sends one request through the production unary fault
// interceptor with a single fault {method, params, count 1} injected.
func c18ViaInterceptor(method string, msg any, params map[string]string) (failed bool, err error) {
	set := faults.NewSet("verif")
	set.Add(faults.Description{Operation: method, Parameters: params, Count: 1, OnFault: func(faults.Description, faults.Parameters) error { return errC18 }})
	ic := mbgrpc.UnaryFaultInjector(set)
	service := "google.pubsub.v1.Publisher"
	if method != "Publish" {
		service = "google.pubsub.v1.Subscriber"
	}
	_, e := ic(context.Background(), msg, &grpc.UnaryServerInfo{FullMethod: "/" + service + "/" + method}, func(ctx context.Context, req any) (any, error) { return nil, nil })
	if e != nil && !errors.Is(e, errC18) {
		return false, e
	}
	return e != nil, nil
}
