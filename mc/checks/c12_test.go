package checks

import (
	"verif/mc/hist"
	"verif/mc/model"
)

func get(kind, name string) model.Op {
	switch kind {
	case "topic":
		return model.Op{K: "getTopic", Topic: name}
	case "sub":
		return model.Op{K: "getSub", Sub: name}
	}
	return model.Op{K: "getSnap", Name: name}
}
func list(kind, project string, page int) model.Op {
	return model.Op{K: kind, Tgt: project, Max: page}
}

func init() {
	histChecks["C12"] = func(tier string) []*hist.Scenario {
		topics := []string{"p:a", "P:a", "pp:a", "p_:a", "p%:a", "p:A"}
		projects := []string{"p", "P", "pp", "p_", "p%"}
		var ta []model.Op
		for _, t := range topics {
			ta = append(ta, mkTopic(t), delTopic(t), get("topic", t))
		}
		for _, p := range projects {
			for _, ps := range []int{1, 2, 100} {
				ta = append(ta, list("listTopics", p, ps))
			}
		}
		ta = append(ta, pub1("p:a", "", 0), pub1("P:a", "", 0))
		subsAlpha := []model.Op{
			mkSub("p:s"), {K: "createSub", Sub: "p:s", Tgt: "alt"}, mkSub("P:s"), mkSub("p:S"),
			delSub("p:s"), delSub("P:s"), delSub("p:S"),
			get("sub", "p:s"), get("sub", "P:s"), get("sub", "p:S"),
			list("listSubs", "p", 1), list("listSubs", "p", 2), list("listSubs", "p", 100), list("listSubs", "P", 1), list("listSubs", "P", 100),
			{K: "listTopicSubs", Topic: "p:t", Max: 1}, {K: "listTopicSubs", Topic: "p:t", Max: 100}, {K: "listTopicSubs", Topic: "P:t", Max: 2},
			pub1("p:t", "", 1), pull("p:s", 10), pull("P:s", 10), ack("p:s", "all"),
			delTopic("p:t"), mkTopic("p:t"),
		}
		snapAlpha := []model.Op{
			pub1("p:t", "", 0), pull("p:s", 10),
			snap("p:s", "p:n"), snap("p:s", "P:n"), snap("P:s", "p:N"), snap("p:s", "pp:n"),
			{K: "delSnap", Name: "p:n"}, {K: "delSnap", Name: "P:n"},
			get("snap", "p:n"), get("snap", "P:n"), get("snap", "p:N"),
			list("listSnaps", "p", 1), list("listSnaps", "p", 2), list("listSnaps", "p", 100), list("listSnaps", "P", 1), list("listSnaps", "P", 100), list("listSnaps", "pp", 100),
			seekS("p:s", "p:n"), seekS("p:s", "P:n"),
			delTopic("p:t"), mkTopic("p:t"), delSub("p:s"), mkSub("p:s"),
		}
		// project ids outside ASCII (multi-byte in UTF-8) next to ASCII look-alikes:
		// "exactly that project" must not depend on how long a name is in bytes
		odd := []model.Op{
			mkTopic("é:a"), mkTopic("e:a"), mkTopic("日本:a"), delTopic("é:a"), get("topic", "é:a"), get("topic", "日本:a"),
			mkSub("é:s"), mkSub("e:s"), delSub("é:s"), get("sub", "é:s"),
			snap("é:s", "é:n"), snap("e:s", "e:n"), snap("é:s", "e:m"), {K: "delSnap", Name: "é:n"}, get("snap", "é:n"),
			list("listTopics", "é", 1), list("listTopics", "é", 100), list("listTopics", "e", 100), list("listTopics", "日本", 100),
			list("listSubs", "é", 1), list("listSubs", "é", 100), list("listSubs", "e", 100),
			list("listSnaps", "é", 1), list("listSnaps", "é", 100), list("listSnaps", "e", 100),
			{K: "listTopicSubs", Topic: "é:a", Max: 100},
		}
		return []*hist.Scenario{
			{
				ID: "C12/non-ascii-projects", Prop: "C12", Depth: d(tier, 6, 7),
				Cfg: model.Cfg{Topics: []string{"é:a", "e:a", "日本:a"}, LazyTopics: []string{"é:a", "e:a", "日本:a"},
					Subs: []model.SubCfg{{Name: "é:s", Topic: "é:a"}, {Name: "e:s", Topic: "e:a"}},
					Lazy: []string{"é:s", "e:s"}},
				Alphabet: odd,
			},
			{
				ID: "C12/topics", Prop: "C12", Depth: d(tier, 4, 5),
				Cfg:      model.Cfg{Topics: topics, LazyTopics: topics},
				Alphabet: ta,
			},
			{
				ID: "C12/subscriptions", Prop: "C12", Depth: d(tier, 5, 6),
				Cfg: model.Cfg{Topics: []string{"p:t", "P:t", "p:u"}, Subs: []model.SubCfg{
					{Name: "p:s", Topic: "p:t"},
					{Name: "P:s", Topic: "P:t"},
					{Name: "p:S", Topic: "p:t", Ordered: true},
				},
					Alt:  []model.SubCfg{{Name: "p:s", Topic: "p:u", Filter: fX, Ordered: true, DLTopic: "p:t", MaxAttempts: 7}},
					Lazy: []string{"p:s", "P:s", "p:S"},
				},
				Alphabet: subsAlpha,
			},
			{
				ID: "C12/snapshots", Prop: "C12", Depth: d(tier, 5, 6),
				Cfg: model.Cfg{Topics: []string{"p:t", "P:t"}, Subs: []model.SubCfg{
					{Name: "p:s", Topic: "p:t"},
					{Name: "P:s", Topic: "P:t"},
				}},
				Alphabet: snapAlpha,
			},
		}
	}
}
