package checks

import (
	"context"
	"fmt"
	"sort"
	"testing"
	"testing/synctest"

	"go.6river.tech/mmmbbb/grpc/pubsubpb"

	"verif/mc/hist"
	"verif/mc/model"
	"verif/mc/report"
	"verif/mc/world"
)

func get(kind, name string) model.Op {
	switch kind {
	case "topic":
		return model.Op{K: "getTopic", Topic: name}
	case "sub":
		return model.Op{K: "getSub", Sub: name}
	}
	return model.Op{K: "getSnap", Name: name}
}
func list(kind, project string, page int) model.Op {
	return model.Op{K: kind, Tgt: project, Max: page}
}

func init() {
	histChecks["C12"] = func(tier string) []*hist.Scenario {
		topics := []string{"p:a", "P:a", "pp:a", "p_:a", "p%:a", "p:A"}
		projects := []string{"p", "P", "pp", "p_", "p%"}
		var ta []model.Op
		for _, t := range topics {
			ta = append(ta, mkTopic(t), delTopic(t), get("topic", t))
		}
		for _, p := range projects {
			for _, ps := range []int{1, 2, 100} {
				ta = append(ta, list("listTopics", p, ps))
			}
		}
		ta = append(ta, pub1("p:a", "", 0), pub1("P:a", "", 0))
		subsAlpha := []model.Op{
			mkSub("p:s"), {K: "createSub", Sub: "p:s", Tgt: "alt"}, mkSub("P:s"), mkSub("p:S"),
			delSub("p:s"), delSub("P:s"), delSub("p:S"),
			get("sub", "p:s"), get("sub", "P:s"), get("sub", "p:S"),
			list("listSubs", "p", 1), list("listSubs", "p", 2), list("listSubs", "p", 100), list("listSubs", "P", 1), list("listSubs", "P", 100),
			{K: "listTopicSubs", Topic: "p:t", Max: 1}, {K: "listTopicSubs", Topic: "p:t", Max: 100}, {K: "listTopicSubs", Topic: "P:t", Max: 2},
			pub1("p:t", "", 1), pull("p:s", 10), pull("P:s", 10), ack("p:s", "all"),
			delTopic("p:t"), mkTopic("p:t"),
		}
		snapAlpha := []model.Op{
			pub1("p:t", "", 0), pull("p:s", 10),
			snap("p:s", "p:n"), snap("p:s", "P:n"), snap("P:s", "p:N"), snap("p:s", "pp:n"),
			{K: "delSnap", Name: "p:n"}, {K: "delSnap", Name: "P:n"},
			get("snap", "p:n"), get("snap", "P:n"), get("snap", "p:N"),
			list("listSnaps", "p", 1), list("listSnaps", "p", 2), list("listSnaps", "p", 100), list("listSnaps", "P", 1), list("listSnaps", "P", 100), list("listSnaps", "pp", 100),
			seekS("p:s", "p:n"), seekS("p:s", "P:n"),
			delTopic("p:t"), mkTopic("p:t"), delSub("p:s"), mkSub("p:s"),
		}
		// project ids outside ASCII (multi-byte in UTF-8) next to ASCII look-alikes:
		// "exactly that project" must not depend on how long a name is in bytes
		odd := []model.Op{
			mkTopic("é:a"), mkTopic("e:a"), mkTopic("日本:a"), delTopic("é:a"), get("topic", "é:a"), get("topic", "日本:a"),
			mkSub("é:s"), mkSub("e:s"), delSub("é:s"), get("sub", "é:s"),
			snap("é:s", "é:n"), snap("e:s", "e:n"), snap("é:s", "e:m"), {K: "delSnap", Name: "é:n"}, get("snap", "é:n"),
			list("listTopics", "é", 1), list("listTopics", "é", 100), list("listTopics", "e", 100), list("listTopics", "日本", 100),
			list("listSubs", "é", 1), list("listSubs", "é", 100), list("listSubs", "e", 100),
			list("listSnaps", "é", 1), list("listSnaps", "é", 100), list("listSnaps", "e", 100),
			{K: "listTopicSubs", Topic: "é:a", Max: 100},
		}
		return []*hist.Scenario{
			{
				ID: "C12/non-ascii-projects", Prop: "C12", Depth: d(tier, 6, 7),
				Cfg: model.Cfg{Topics: []string{"é:a", "e:a", "日本:a"}, LazyTopics: []string{"é:a", "e:a", "日本:a"},
					Subs: []model.SubCfg{{Name: "é:s", Topic: "é:a"}, {Name: "e:s", Topic: "e:a"}},
					Lazy: []string{"é:s", "e:s"}},
				Alphabet: odd,
			},
			{
				ID: "C12/topics", Prop: "C12", Depth: d(tier, 4, 5),
				Cfg:      model.Cfg{Topics: topics, LazyTopics: topics},
				Alphabet: ta,
			},
			{
				ID: "C12/subscriptions", Prop: "C12", Depth: d(tier, 5, 6),
				Cfg: model.Cfg{Topics: []string{"p:t", "P:t", "p:u"}, Subs: []model.SubCfg{
					{Name: "p:s", Topic: "p:t"},
					{Name: "P:s", Topic: "P:t"},
					{Name: "p:S", Topic: "p:t", Ordered: true},
				},
					Alt:  []model.SubCfg{{Name: "p:s", Topic: "p:u", Filter: fX, Ordered: true, DLTopic: "p:t", MaxAttempts: 7}},
					Lazy: []string{"p:s", "P:s", "p:S"},
				},
				Alphabet: subsAlpha,
			},
			{
				ID: "C12/snapshots", Prop: "C12", Depth: d(tier, 5, 6),
				Cfg: model.Cfg{Topics: []string{"p:t", "P:t"}, Subs: []model.SubCfg{
					{Name: "p:s", Topic: "p:t"},
					{Name: "P:s", Topic: "P:t"},
				}},
				Alphabet: snapAlpha,
			},
		}
	}
}


// More live resources than the server's page-size cap (100), walked with page
// sizes below, at and above the cap: the union of the pages is the live set of
// exactly that project, for every List call.
func init() {
	addExtra("C12", func(t *testing.T, tier string) (map[string]any, []report.Viol, error) {
		var viols []report.Viol
		walks := 0
		var ferr error
		synctest.Test(t, func(t *testing.T) {
			w, err := world.Open()
			if err != nil {
				ferr = err
				return
			}
			defer w.Close()
			w.SeqTick = false
			ctx := context.Background()
			const N = 121
			live := map[string]map[string]bool{"topics": {}, "subs": {}, "snaps": {}, "topicsubs": {}}
			for _, proj := range []string{"projects/big", "projects/BIG"} {
				for i := 0; i < N; i++ {
					if proj == "projects/BIG" && i >= 3 {
						break
					}
					tn := fmt.Sprintf("%s/topics/t%03d", proj, i)
					if _, err := w.Pub.CreateTopic(ctx, &pubsubpb.Topic{Name: tn}); err != nil {
						ferr = err
						return
					}
					sn := fmt.Sprintf("%s/subscriptions/s%03d", proj, i)
					if _, err := w.Sub.CreateSubscription(ctx, &pubsubpb.Subscription{Name: sn, Topic: fmt.Sprintf("%s/topics/t000", proj)}); err != nil {
						ferr = err
						return
					}
					pn := fmt.Sprintf("%s/snapshots/n%03d", proj, i)
					if _, err := w.Sub.CreateSnapshot(ctx, &pubsubpb.CreateSnapshotRequest{Name: pn, Subscription: sn}); err != nil {
						ferr = err
						return
					}
					if proj == "projects/big" {
						live["topics"][tn], live["subs"][sn], live["snaps"][pn], live["topicsubs"][sn] = true, true, true, true
					}
				}
			}
			// delete a few and re-create one
			for _, i := range []int{5, 50, 100, 120} {
				tn := fmt.Sprintf("projects/big/topics/t%03d", i)
				w.Pub.DeleteTopic(ctx, &pubsubpb.DeleteTopicRequest{Topic: tn})
				delete(live["topics"], tn)
				sn := fmt.Sprintf("projects/big/subscriptions/s%03d", i)
				pn := fmt.Sprintf("projects/big/snapshots/n%03d", i)
				w.Sub.DeleteSnapshot(ctx, &pubsubpb.DeleteSnapshotRequest{Snapshot: pn})
				delete(live["snaps"], pn)
				w.Sub.DeleteSubscription(ctx, &pubsubpb.DeleteSubscriptionRequest{Subscription: sn})
				delete(live["subs"], sn)
				delete(live["topicsubs"], sn)
			}
			w.Pub.CreateTopic(ctx, &pubsubpb.Topic{Name: "projects/big/topics/t050"})
			live["topics"]["projects/big/topics/t050"] = true
			page := func(kind string, size int32, token string) ([]string, string, error) {
				switch kind {
				case "topics":
					r, err := w.Pub.ListTopics(ctx, &pubsubpb.ListTopicsRequest{Project: "projects/big", PageSize: size, PageToken: token})
					if err != nil {
						return nil, "", err
					}
					var out []string
					for _, x := range r.Topics {
						out = append(out, x.Name)
					}
					return out, r.NextPageToken, nil
				case "subs":
					r, err := w.Sub.ListSubscriptions(ctx, &pubsubpb.ListSubscriptionsRequest{Project: "projects/big", PageSize: size, PageToken: token})
					if err != nil {
						return nil, "", err
					}
					var out []string
					for _, x := range r.Subscriptions {
						out = append(out, x.Name)
					}
					return out, r.NextPageToken, nil
				case "snaps":
					r, err := w.Sub.ListSnapshots(ctx, &pubsubpb.ListSnapshotsRequest{Project: "projects/big", PageSize: size, PageToken: token})
					if err != nil {
						return nil, "", err
					}
					var out []string
					for _, x := range r.Snapshots {
						out = append(out, x.Name)
					}
					return out, r.NextPageToken, nil
				default:
					r, err := w.Pub.ListTopicSubscriptions(ctx, &pubsubpb.ListTopicSubscriptionsRequest{Topic: "projects/big/topics/t000", PageSize: size, PageToken: token})
					if err != nil {
						return nil, "", err
					}
					return r.Subscriptions, r.NextPageToken, nil
				}
			}
			for _, kind := range []string{"topics", "subs", "snaps", "topicsubs"} {
				for _, size := range []int32{0, 1, 7, 50, 99, 100, 101, 150, 1000} {
					if size == 1 && tier != "thorough" && kind != "topics" {
						continue
					}
					walks++
					got := map[string]int{}
					token := ""
					pages := 0
					var werr error
					for {
						names, next, err := page(kind, size, token)
						if err != nil {
							werr = err
							break
						}
						for _, n := range names {
							got[n]++
						}
						pages++
						if next == "" || pages > 400 {
							break
						}
						token = next
					}
					var missing, extra []string
					for n := range live[kind] {
						if got[n] != 1 {
							missing = append(missing, n)
						}
					}
					for n, c := range got {
						if !live[kind][n] || c > 1 {
							extra = append(extra, n)
						}
					}
					sort.Strings(missing)
					sort.Strings(extra)
					if werr != nil || len(missing) > 0 || len(extra) > 0 {
						if len(missing) > 4 {
							missing = append(missing[:4], fmt.Sprintf("... %d in all", len(missing)))
						}
						viols = append(viols, report.Viol{Property: "C12", Check: "C12/more-than-a-page-cap", Rule: "list-mismatch", Text: fmt.Sprintf("List %s of a project with %d live ones, page size %d (%d pages): error %v, not listed exactly once %v, listed but not live / listed twice %v", kind, len(live[kind]), size, pages, werr, missing, extra), Trace: []string{kind, fmt.Sprint(size)}})
					}
				}
			}
		})
		return map[string]any{"big_list_walks": walks}, viols, ferr
	})
}
