//go:build verifshim

package checks

import (
	"bytes"
	"encoding/json"
	"fmt"
	"net/http"
	"net/http/httptest"

	"github.com/gin-gonic/gin"

	"go.6river.tech/mmmbbb/controllers"
	"go.6river.tech/mmmbbb/faults"

	"verif/mc/report"
)

// Faults injected the way users inject them: POST /faults/inject on the REST
// controller.  Every count in {omitted, 0, 1, 2, 3} x {no parameters, one, two} x
// 5 rounds of {matching call, matching call with an extra parameter, call with
// another value, call without parameters, other operation}: exactly min(N,
// matching calls) matching calls fail (all of them for an omitted count), nothing
// else fails, and GET /faults lists the fault while - and only while - injections
// remain.
func c18Rest() (int, []report.Viol) {
	gin.SetMode(gin.ReleaseMode)
	var viols []report.Viol
	n := 0
	add := func(text string, trace ...string) {
		if len(viols) < 20 {
			viols = append(viols, report.Viol{Property: "C18", Check: "C18/rest-injection", Rule: "fault-count", Text: text, Trace: trace})
		}
	}
	counts := []*int64{nil}
	for _, c := range []int64{0, 1, 2, 3} {
		c := c
		counts = append(counts, &c)
	}
	paramSets := []map[string]string{nil, {"subscription": "s"}, {"subscription": "s", "topic": "t"}}
	for _, cnt := range counts {
		for _, ps := range paramSets {
			set := faults.NewSet("verif")
			router := gin.New()
			if err := controllers.VerifFaultInjector(set).Register(router); err != nil {
				add("Register failed: " + err.Error())
				return n, viols
			}
			body := map[string]any{"operation": "Pull", "error": "grpc.Unavailable"}
			if cnt != nil {
				body["count"] = *cnt
			}
			if ps != nil {
				body["parameters"] = ps
			}
			b, _ := json.Marshal(body)
			rec := httptest.NewRecorder()
			router.ServeHTTP(rec, httptest.NewRequest(http.MethodPost, "/faults/inject", bytes.NewReader(b)))
			desc := fmt.Sprintf("POST /faults/inject %s", b)
			if rec.Code != http.StatusCreated {
				add(fmt.Sprintf("%s answered %d %s", desc, rec.Code, rec.Body.String()), desc)
				continue
			}
			listed := func() int {
				r := httptest.NewRecorder()
				router.ServeHTTP(r, httptest.NewRequest(http.MethodGet, "/faults", nil))
				var l []map[string]any
				json.Unmarshal(r.Body.Bytes(), &l)
				return len(l)
			}
			full := map[string]string{"subscription": "s", "topic": "t"}
			matching, failed, wrongly := 0, 0, 0
			for round := 0; round < 5; round++ {
				calls := []struct {
					op    string
					p     map[string]string
					match bool
				}{
					{"Pull", full, true},
					{"Pull", map[string]string{"subscription": "s", "topic": "t", "extra": "x"}, true},
					{"Pull", map[string]string{"subscription": "other", "topic": "t"}, ps == nil},
					{"Pull", nil, ps == nil},
					{"Acknowledge", full, false},
				}
				for _, c := range calls {
					err := set.Check(c.op, c.p)
					n++
					if c.match {
						matching++
						if err != nil {
							failed++
						}
					} else if err != nil {
						wrongly++
					}
				}
			}
			want := matching
			if cnt != nil && int(*cnt) < matching {
				want = int(*cnt)
			}
			if failed != want || wrongly != 0 {
				add(fmt.Sprintf("%s: %d of %d matching calls failed, want %d; %d non-matching calls failed", desc, failed, matching, want, wrongly), desc)
			}
			wantListed := 0
			if cnt == nil {
				wantListed = 1
			}
			if l := listed(); l != wantListed {
				add(fmt.Sprintf("%s: after %d matching calls GET /faults lists %d faults, want %d", desc, matching, l, wantListed), desc)
			}
		}
	}
	return n, viols
}
