package checks

import (
	"bufio"
	"context"
	"database/sql"
	"fmt"
	"math"
	"net"
	"os"
	"os/exec"
	"sort"
	"strconv"
	"strings"
	"testing"
	"time"

	_ "github.com/mattn/go-sqlite3"
	"google.golang.org/grpc"
	"google.golang.org/grpc/codes"
	"google.golang.org/grpc/credentials/insecure"
	"google.golang.org/grpc/status"
	"google.golang.org/protobuf/proto"
	"google.golang.org/protobuf/types/known/durationpb"
	"google.golang.org/protobuf/types/known/fieldmaskpb"
	"google.golang.org/protobuf/types/known/timestamppb"

	"go.6river.tech/mmmbbb/defaults"
	"go.6river.tech/mmmbbb/ent"
	"go.6river.tech/mmmbbb/faults"
	mbgrpc "go.6river.tech/mmmbbb/grpc"
	"go.6river.tech/mmmbbb/grpc/pubsubpb"
	"go.6river.tech/mmmbbb/services"

	"verif/mc/report"
	"verif/mc/world"
)

func init() { otherChecks["C16"] = runC16 }

// ---------------------------------------------------------------------------
// server subprocess: the production gRPC service object with its interceptor
// chain on a real TCP port, backed by a fresh SQLite database.

func c16Server() int {
	port, _ := strconv.Atoi(os.Getenv("VERIF_C16_SERVER"))
	os.Setenv("PORT", strconv.Itoa(port-defaults.GRPCOffset))
	w, err := world.Open()
	if err != nil {
		fmt.Println("server: open:", err)
		return 3
	}
	w.SeqTick = false
	ctx, cancel := context.WithCancel(context.Background())
	defer cancel()
	svc := mbgrpc.NewGrpcService(defaults.Port, defaults.GRPCOffset, nil, faults.NewSet("verif"),
		func(_ context.Context, server *grpc.Server, client *ent.Client) error {
			return services.InitializeGrpcServers(server, client, nil)
		})
	if err := svc.Initialize(ctx, w.Client); err != nil {
		fmt.Println("server: init:", err)
		return 3
	}
	ready := make(chan struct{})
	errc := make(chan error, 1)
	go func() { errc <- svc.Start(ctx, ready) }()
	<-ready
	fmt.Printf("@@READY %s\n", w.Dir)
	// exit when the parent closes our stdin
	go func() {
		bufio.NewReader(os.Stdin).ReadString('\n')
		cancel()
		time.Sleep(200 * time.Millisecond)
		os.RemoveAll(w.Dir)
		os.Exit(0)
	}()
	err = <-errc
	os.RemoveAll(w.Dir)
	if err != nil {
		fmt.Println("server: serve:", err)
		return 3
	}
	return 0
}

type c16Srv struct {
	cmd   *exec.Cmd
	stdin interface{ Close() error }
	done  chan error
	dir   string
	port  int
	conn  *grpc.ClientConn
	pub   pubsubpb.PublisherClient
	sub   pubsubpb.SubscriberClient
	db    *sql.DB
	tail  *tailBuf
}

type tailBuf struct{ b []byte }

func (t *tailBuf) Write(p []byte) (int, error) {
	t.b = append(t.b, p...)
	if len(t.b) > 6000 {
		t.b = t.b[len(t.b)-6000:]
	}
	return len(p), nil
}

func freePort() int {
	// internal.ResolvePort parses PORT as a 16-bit signed number: stay below 32767
	for i := 0; i < 2000; i++ {
		p := 20000 + (os.Getpid()*7+i*13)%12000
		l, err := net.Listen("tcp", fmt.Sprintf("127.0.0.1:%d", p))
		if err != nil {
			continue
		}
		l.Close()
		l2, err := net.Listen("tcp", fmt.Sprintf(":%d", p))
		if err != nil {
			continue
		}
		l2.Close()
		return p
	}
	panic("no free port")
}

func startC16Server() (*c16Srv, error) {
	exe, _ := os.Executable()
	s := &c16Srv{port: freePort(), done: make(chan error, 1), tail: &tailBuf{}}
	s.cmd = exec.Command(exe, "-test.run", "^TestCheck$", "-test.timeout", "0")
	s.cmd.Env = append(os.Environ(), "VERIF_CHECK=C16", "VERIF_C16_SERVER="+strconv.Itoa(s.port))
	in, err := s.cmd.StdinPipe()
	if err != nil {
		return nil, err
	}
	s.stdin = in
	out, err := s.cmd.StdoutPipe()
	if err != nil {
		return nil, err
	}
	s.cmd.Stderr = s.tail
	if err := s.cmd.Start(); err != nil {
		return nil, err
	}
	rd := bufio.NewReader(out)
	readyc := make(chan string, 1)
	go func() {
		for {
			line, err := rd.ReadString('\n')
			if strings.HasPrefix(line, "@@READY ") {
				readyc <- strings.TrimSpace(strings.TrimPrefix(line, "@@READY "))
			} else if line != "" {
				s.tail.Write([]byte(line))
			}
			if err != nil {
				return
			}
		}
	}()
	go func() { s.done <- s.cmd.Wait() }()
	select {
	case s.dir = <-readyc:
	case err := <-s.done:
		return nil, fmt.Errorf("server exited during start: %v\n%s", err, s.tail.b)
	case <-time.After(30 * time.Second):
		s.cmd.Process.Kill()
		return nil, fmt.Errorf("server start timeout")
	}
	// (the client accepts large answers: only the SERVER's limits are under test)
	s.conn, err = grpc.NewClient(fmt.Sprintf("127.0.0.1:%d", s.port), grpc.WithTransportCredentials(insecure.NewCredentials()),
		grpc.WithDefaultCallOptions(grpc.MaxCallRecvMsgSize(64<<20), grpc.MaxCallSendMsgSize(64<<20)))
	if err != nil {
		return nil, err
	}
	s.pub = pubsubpb.NewPublisherClient(s.conn)
	s.sub = pubsubpb.NewSubscriberClient(s.conn)
	s.db, err = sql.Open("sqlite3", "file:"+s.dir+"/mc.sqlite3?_fk=true&_journal_mode=wal&_busy_timeout=10000&_txlock=immediate")
	if err != nil {
		return nil, err
	}
	return s, nil
}

func (s *c16Srv) alive() bool {
	select {
	case err := <-s.done:
		s.done <- err
		return false
	default:
		return true
	}
}

func (s *c16Srv) stop() {
	if s.conn != nil {
		s.conn.Close()
	}
	if s.db != nil {
		s.db.Close()
	}
	s.stdin.Close()
	select {
	case <-s.done:
	case <-time.After(3 * time.Second):
		s.cmd.Process.Kill()
	}
	if s.dir != "" {
		os.RemoveAll(s.dir)
	}
}

// ---------------------------------------------------------------------------
// prepared state and request domains

type c16Env struct {
	liveAck, staleAck, foreignAck string
}

const (
	c16T1 = "projects/p/topics/t1"
	c16T2 = "projects/p/topics/t2"
	c16S1 = "projects/p/subscriptions/s1"
	c16S2 = "projects/p/subscriptions/s2"
	c16S3 = "projects/p/subscriptions/s3"
	c16S4 = "projects/p/subscriptions/s4"
	c16T3 = "projects/p/topics/t3"
	c16T4 = "projects/p/topics/t4"
	c16T5 = "projects/p/topics/t5"
	c16T6 = "projects/p/topics/t6"
	c16S5 = "projects/p/subscriptions/s5"
	c16S6 = "projects/p/subscriptions/s6"
	c16S7 = "projects/p/subscriptions/s7"
	c16N2 = "projects/p/snapshots/n2"
	c16N1 = "projects/p/snapshots/n1"
)

func c16Prepare(s *c16Srv, env *c16Env) error {
	ctx, cancel := context.WithTimeout(context.Background(), 20*time.Second)
	defer cancel()
	for _, t := range []string{c16T1, c16T2} {
		if _, err := s.pub.CreateTopic(ctx, &pubsubpb.Topic{Name: t}); err != nil {
			return err
		}
	}
	for _, sub := range []*pubsubpb.Subscription{
		{Name: c16S1, Topic: c16T1},
		{Name: c16S2, Topic: c16T1, EnableMessageOrdering: true},
		{Name: c16S3, Topic: c16T2, DeadLetterPolicy: &pubsubpb.DeadLetterPolicy{DeadLetterTopic: c16T1, MaxDeliveryAttempts: 5}},
	} {
		if _, err := s.sub.CreateSubscription(ctx, sub); err != nil {
			return err
		}
	}
	var msgs []*pubsubpb.PubsubMessage
	for i := 0; i < 4; i++ {
		msgs = append(msgs, &pubsubpb.PubsubMessage{Data: []byte(fmt.Sprintf(`{"i":%d}`, i)), OrderingKey: "k"})
	}
	if _, err := s.pub.Publish(ctx, &pubsubpb.PublishRequest{Topic: c16T1, Messages: msgs}); err != nil {
		return err
	}
	p1, err := s.sub.Pull(ctx, &pubsubpb.PullRequest{Subscription: c16S1, MaxMessages: 2})
	if err != nil || len(p1.ReceivedMessages) != 2 {
		return fmt.Errorf("prepare pull s1: %v %v", p1, err)
	}
	env.liveAck = p1.ReceivedMessages[0].AckId
	env.staleAck = p1.ReceivedMessages[1].AckId
	if _, err := s.sub.Acknowledge(ctx, &pubsubpb.AcknowledgeRequest{Subscription: c16S1, AckIds: []string{env.staleAck}}); err != nil {
		return err
	}
	p2, err := s.sub.Pull(ctx, &pubsubpb.PullRequest{Subscription: c16S2, MaxMessages: 1})
	if err != nil || len(p2.ReceivedMessages) != 1 {
		return fmt.Errorf("prepare pull s2: %v %v", p2, err)
	}
	env.foreignAck = p2.ReceivedMessages[0].AckId
	if _, err := s.sub.CreateSnapshot(ctx, &pubsubpb.CreateSnapshotRequest{Name: c16N1, Subscription: c16S1}); err != nil {
		return err
	}
	// s4: its dead-letter topic has been deleted, and a delivery that has used up its
	// attempts is due (the next pull retires it)
	if _, err := s.pub.CreateTopic(ctx, &pubsubpb.Topic{Name: c16T3}); err != nil {
		return err
	}
	if _, err := s.sub.CreateSubscription(ctx, &pubsubpb.Subscription{Name: c16S4, Topic: c16T2, DeadLetterPolicy: &pubsubpb.DeadLetterPolicy{DeadLetterTopic: c16T3, MaxDeliveryAttempts: 5}}); err != nil {
		return err
	}
	if _, err := s.pub.Publish(ctx, &pubsubpb.PublishRequest{Topic: c16T2, Messages: []*pubsubpb.PubsubMessage{{Data: []byte(`{"dl":1}`)}}}); err != nil {
		return err
	}
	for i := 0; i < 5; i++ {
		p4, err := s.sub.Pull(ctx, &pubsubpb.PullRequest{Subscription: c16S4, MaxMessages: 1, ReturnImmediately: true})
		if err != nil || len(p4.ReceivedMessages) != 1 {
			return fmt.Errorf("prepare pull s4 #%d: %v %v", i, p4, err)
		}
		if _, err := s.sub.ModifyAckDeadline(ctx, &pubsubpb.ModifyAckDeadlineRequest{Subscription: c16S4, AckIds: []string{p4.ReceivedMessages[0].AckId}}); err != nil {
			return err
		}
	}
	if _, err := s.pub.DeleteTopic(ctx, &pubsubpb.DeleteTopicRequest{Topic: c16T3}); err != nil {
		return err
	}
	// s5: detached (its topic t4 was deleted) while it holds a leased message
	// s6: a name in use for the second time, the deleted predecessor not pruned
	// t6: likewise for a topic; n2: a snapshot whose subscription was deleted
	steps := []func() error{
		func() error { _, e := s.pub.CreateTopic(ctx, &pubsubpb.Topic{Name: c16T4}); return e },
		func() error {
			_, e := s.sub.CreateSubscription(ctx, &pubsubpb.Subscription{Name: c16S5, Topic: c16T4})
			return e
		},
		func() error {
			_, e := s.pub.Publish(ctx, &pubsubpb.PublishRequest{Topic: c16T4, Messages: []*pubsubpb.PubsubMessage{{Data: []byte(`{"d":1}`)}, {Data: []byte(`{"d":2}`)}}})
			return e
		},
		func() error {
			_, e := s.sub.Pull(ctx, &pubsubpb.PullRequest{Subscription: c16S5, MaxMessages: 1, ReturnImmediately: true})
			return e
		},
		func() error { _, e := s.pub.DeleteTopic(ctx, &pubsubpb.DeleteTopicRequest{Topic: c16T4}); return e },
		func() error { _, e := s.pub.CreateTopic(ctx, &pubsubpb.Topic{Name: c16T5}); return e },
		func() error {
			_, e := s.sub.CreateSubscription(ctx, &pubsubpb.Subscription{Name: c16S6, Topic: c16T5})
			return e
		},
		func() error {
			_, e := s.pub.Publish(ctx, &pubsubpb.PublishRequest{Topic: c16T5, Messages: []*pubsubpb.PubsubMessage{{Data: []byte(`{"r":1}`)}}})
			return e
		},
		func() error {
			_, e := s.sub.DeleteSubscription(ctx, &pubsubpb.DeleteSubscriptionRequest{Subscription: c16S6})
			return e
		},
		func() error {
			_, e := s.sub.CreateSubscription(ctx, &pubsubpb.Subscription{Name: c16S6, Topic: c16T5})
			return e
		},
		func() error {
			_, e := s.pub.Publish(ctx, &pubsubpb.PublishRequest{Topic: c16T5, Messages: []*pubsubpb.PubsubMessage{{Data: []byte(`{"r":2}`)}}})
			return e
		},
		func() error { _, e := s.pub.CreateTopic(ctx, &pubsubpb.Topic{Name: c16T6}); return e },
		func() error { _, e := s.pub.DeleteTopic(ctx, &pubsubpb.DeleteTopicRequest{Topic: c16T6}); return e },
		func() error { _, e := s.pub.CreateTopic(ctx, &pubsubpb.Topic{Name: c16T6}); return e },
		func() error {
			_, e := s.sub.CreateSubscription(ctx, &pubsubpb.Subscription{Name: c16S7, Topic: c16T1})
			return e
		},
		func() error {
			_, e := s.sub.CreateSnapshot(ctx, &pubsubpb.CreateSnapshotRequest{Name: c16N2, Subscription: c16S7})
			return e
		},
		func() error {
			_, e := s.sub.DeleteSubscription(ctx, &pubsubpb.DeleteSubscriptionRequest{Subscription: c16S7})
			return e
		},
	}
	for i, f := range steps {
		if err := f(); err != nil {
			return fmt.Errorf("prepare unusual states, step %d: %w", i, err)
		}
	}
	return nil
}

type alt struct {
	label string
	set   func(m proto.Message)
}
type field struct {
	name string
	alts []alt // alts[0] is the valid default
}
type rpcSpec struct {
	name   string
	newMsg func() proto.Message
	fields []field
	invoke func(ctx context.Context, s *c16Srv, m proto.Message) error
	// ignore: table columns that a FAILED request of this kind may still touch
	ignore []string
}

func nameAlts(valid string, kind string, set func(m proto.Message, v string), more ...[2]string) []alt {
	other := map[string]string{"topics": "subscriptions", "subscriptions": "topics", "snapshots": "topics"}[kind]
	vals := []struct{ l, v string }{
		{"valid", valid},
		{"unknown", "projects/p/" + kind + "/nope"},
		{"other-kind", "projects/p/" + other + "/t1"},
		{"empty", ""},
		{"five-segments", valid + "/x"},
		{"no-project", "projects//" + kind + "/a"},
	}
	for _, x := range more {
		vals = append(vals, struct{ l, v string }{x[0], x[1]})
	}
	// valid names of resources in an unusual state (see c16Prepare)
	switch kind {
	case "subscriptions":
		vals = append(vals, struct{ l, v string }{"valid(topic-deleted,message-leased)", c16S5}, struct{ l, v string }{"valid(name-reused,deleted-predecessor-unpruned)", c16S6})
	case "topics":
		vals = append(vals, struct{ l, v string }{"valid(name-reused,deleted-predecessor-unpruned)", c16T6}, struct{ l, v string }{"deleted", c16T4})
	case "snapshots":
		vals = append(vals, struct{ l, v string }{"valid(subscription-deleted)", c16N2})
	}
	var out []alt
	for _, x := range vals {
		x := x
		out = append(out, alt{x.l, func(m proto.Message) { set(m, x.v) }})
	}
	return out
}

func int32Alts(def int32, set func(m proto.Message, v int32)) []alt {
	var out []alt
	for _, v := range []int32{def, math.MinInt32, -1, 0, 1, math.MaxInt32} {
		v := v
		out = append(out, alt{fmt.Sprint(v), func(m proto.Message) { set(m, v) }})
	}
	return out
}

func durAlts(set func(m proto.Message, v *durationpb.Duration)) []alt {
	return []alt{
		{"absent", func(m proto.Message) { set(m, nil) }},
		{"-1s", func(m proto.Message) { set(m, durationpb.New(-time.Second)) }},
		{"zero", func(m proto.Message) { set(m, &durationpb.Duration{}) }},
		{"1ns", func(m proto.Message) { set(m, durationpb.New(1)) }},
		{"10000y", func(m proto.Message) { set(m, &durationpb.Duration{Seconds: 315576000000}) }},
		{"invalid-nanos", func(m proto.Message) { set(m, &durationpb.Duration{Seconds: 1, Nanos: -5}) }},
	}
}

func ackAlts(env *c16Env, set func(m proto.Message, v []string)) []alt {
	return []alt{
		{"live", func(m proto.Message) { set(m, []string{env.liveAck}) }},
		{"stale", func(m proto.Message) { set(m, []string{env.staleAck}) }},
		{"foreign", func(m proto.Message) { set(m, []string{env.foreignAck}) }},
		{"garbage", func(m proto.Message) { set(m, []string{"not-a-uuid"}) }},
		// well-formed, but the all-zero / all-ones value
		{"nil-uuid", func(m proto.Message) { set(m, []string{"00000000-0000-0000-0000-000000000000"}) }},
		{"max-uuid+live", func(m proto.Message) { set(m, []string{"ffffffff-ffff-ffff-ffff-ffffffffffff", env.liveAck}) }},
		{"empty-string", func(m proto.Message) { set(m, []string{""}) }},
		{"empty-list", func(m proto.Message) { set(m, nil) }},
		{"mixed", func(m proto.Message) { set(m, []string{env.staleAck, "zz", env.liveAck}) }},
		// well-formed ids only, some of which no longer match an open delivery
		{"stale+live", func(m proto.Message) { set(m, []string{env.staleAck, env.liveAck}) }},
		{"live-twice", func(m proto.Message) { set(m, []string{env.liveAck, env.liveAck}) }},
		{"live+foreign", func(m proto.Message) { set(m, []string{env.liveAck, env.foreignAck}) }},
	}
}

// optionalAckAlts: for requests in which the id list is optional, the valid base
// is "no ids"; every other variant is a deviation.
func optionalAckAlts(env *c16Env, set func(m proto.Message, v []string)) []alt {
	a := ackAlts(env, set)
	out := []alt{{"none", func(m proto.Message) { set(m, nil) }}}
	for _, x := range a {
		if x.label != "empty-list" {
			out = append(out, x)
		}
	}
	return out
}

func maskAlts(known []string, set func(m proto.Message, v *fieldmaskpb.FieldMask)) []alt {
	out := []alt{{"all-known", func(m proto.Message) { set(m, &fieldmaskpb.FieldMask{Paths: known}) }}}
	for _, k := range known {
		k := k
		out = append(out, alt{k, func(m proto.Message) { set(m, &fieldmaskpb.FieldMask{Paths: []string{k}}) }})
	}
	out = append(out,
		alt{"unknown-path", func(m proto.Message) { set(m, &fieldmaskpb.FieldMask{Paths: []string{"bogus"}}) }},
		alt{"repeated", func(m proto.Message) { set(m, &fieldmaskpb.FieldMask{Paths: []string{known[0], known[0]}}) }},
		alt{"empty", func(m proto.Message) { set(m, &fieldmaskpb.FieldMask{}) }},
		alt{"nil", func(m proto.Message) { set(m, nil) }},
		alt{"unsupported", func(m proto.Message) { set(m, &fieldmaskpb.FieldMask{Paths: []string{"name"}}) }},
	)
	return out
}

func c16Specs(env *c16Env) []rpcSpec {
	subFields := func(get func(m proto.Message) *pubsubpb.Subscription, nameDefault string) []field {
		return []field{
			{"name", nameAlts(nameDefault, "subscriptions", func(m proto.Message, v string) { get(m).Name = v })},
			{"topic", nameAlts(c16T1, "topics", func(m proto.Message, v string) { get(m).Topic = v })},
			{"ttl", append([]alt{{"policy-absent", func(m proto.Message) {}}, {"policy-empty", func(m proto.Message) { get(m).ExpirationPolicy = &pubsubpb.ExpirationPolicy{} }}},
				durAlts(func(m proto.Message, v *durationpb.Duration) {
					get(m).ExpirationPolicy = &pubsubpb.ExpirationPolicy{Ttl: v}
				})[1:]...)},
			{"retention", durAlts(func(m proto.Message, v *durationpb.Duration) { get(m).MessageRetentionDuration = v })},
			// retry policy: the product of the two duration domains (two fields)
			{"retry.min", append([]alt{{"policy-absent", func(m proto.Message) {}}, {"policy-empty", func(m proto.Message) { get(m).RetryPolicy = &pubsubpb.RetryPolicy{} }}},
				append(durAlts(func(m proto.Message, v *durationpb.Duration) {
					if get(m).RetryPolicy == nil {
						get(m).RetryPolicy = &pubsubpb.RetryPolicy{}
					}
					get(m).RetryPolicy.MinimumBackoff = v
				})[1:], alt{"1s", func(m proto.Message) {
					if get(m).RetryPolicy == nil {
						get(m).RetryPolicy = &pubsubpb.RetryPolicy{}
					}
					get(m).RetryPolicy.MinimumBackoff = durationpb.New(time.Second)
				}})...)},
			{"retry.max", append([]alt{{"absent", func(m proto.Message) {}}},
				append(durAlts(func(m proto.Message, v *durationpb.Duration) {
					if get(m).RetryPolicy == nil {
						get(m).RetryPolicy = &pubsubpb.RetryPolicy{}
					}
					get(m).RetryPolicy.MaximumBackoff = v
				})[1:], alt{"30s", func(m proto.Message) {
					if get(m).RetryPolicy == nil {
						get(m).RetryPolicy = &pubsubpb.RetryPolicy{}
					}
					get(m).RetryPolicy.MaximumBackoff = durationpb.New(30 * time.Second)
				}})...)},
			{"deadletter", []alt{
				{"absent", func(m proto.Message) {}},
				{"empty", func(m proto.Message) { get(m).DeadLetterPolicy = &pubsubpb.DeadLetterPolicy{} }},
				{"valid", func(m proto.Message) {
					get(m).DeadLetterPolicy = &pubsubpb.DeadLetterPolicy{DeadLetterTopic: c16T2, MaxDeliveryAttempts: 5}
				}},
				{"valid-default-attempts", func(m proto.Message) { get(m).DeadLetterPolicy = &pubsubpb.DeadLetterPolicy{DeadLetterTopic: c16T2} }},
				{"attempts-no-topic", func(m proto.Message) { get(m).DeadLetterPolicy = &pubsubpb.DeadLetterPolicy{MaxDeliveryAttempts: 3} }},
				{"topic-neg-attempts", func(m proto.Message) {
					get(m).DeadLetterPolicy = &pubsubpb.DeadLetterPolicy{DeadLetterTopic: c16T2, MaxDeliveryAttempts: -1}
				}},
				{"topic-min-attempts", func(m proto.Message) {
					get(m).DeadLetterPolicy = &pubsubpb.DeadLetterPolicy{DeadLetterTopic: c16T2, MaxDeliveryAttempts: math.MinInt32}
				}},
				{"topic-max-attempts", func(m proto.Message) {
					get(m).DeadLetterPolicy = &pubsubpb.DeadLetterPolicy{DeadLetterTopic: c16T2, MaxDeliveryAttempts: math.MaxInt32}
				}},
				{"unknown-topic", func(m proto.Message) {
					get(m).DeadLetterPolicy = &pubsubpb.DeadLetterPolicy{DeadLetterTopic: "projects/p/topics/nope", MaxDeliveryAttempts: 1}
				}},
				{"bad-topic-name", func(m proto.Message) {
					get(m).DeadLetterPolicy = &pubsubpb.DeadLetterPolicy{DeadLetterTopic: "x", MaxDeliveryAttempts: 1}
				}},
			}},
			{"push", []alt{
				{"absent", func(m proto.Message) {}},
				{"empty", func(m proto.Message) { get(m).PushConfig = &pubsubpb.PushConfig{} }},
				{"endpoint", func(m proto.Message) { get(m).PushConfig = &pubsubpb.PushConfig{PushEndpoint: "http://127.0.0.1:1/x"} }},
				{"attributes", func(m proto.Message) {
					get(m).PushConfig = &pubsubpb.PushConfig{PushEndpoint: "x", Attributes: map[string]string{"x-goog-version": "v1beta1"}}
				}},
				{"oidc", func(m proto.Message) {
					get(m).PushConfig = &pubsubpb.PushConfig{AuthenticationMethod: &pubsubpb.PushConfig_OidcToken_{}}
				}},
				{"nowrapper", func(m proto.Message) {
					get(m).PushConfig = &pubsubpb.PushConfig{Wrapper: &pubsubpb.PushConfig_NoWrapper_{}}
				}},
			}},
			{"filter", []alt{
				{"none", func(m proto.Message) {}},
				{"valid", func(m proto.Message) { get(m).Filter = "attributes:x" }},
				{"invalid", func(m proto.Message) { get(m).Filter = "attributes:" }},
				{"deep", func(m proto.Message) {
					get(m).Filter = strings.Repeat("(", 200) + "attributes:x" + strings.Repeat(")", 200)
				}},
			}},
			{"flags", []alt{
				{"none", func(m proto.Message) {}},
				{"ordering", func(m proto.Message) { get(m).EnableMessageOrdering = true }},
				{"detached", func(m proto.Message) { get(m).Detached = true }},
				{"ack-deadline-neg", func(m proto.Message) { get(m).AckDeadlineSeconds = -5 }},
			}},
		}
	}
	subPaths := []string{"labels", "expiration_policy", "message_retention_duration", "enable_message_ordering", "retry_policy", "push_config", "filter", "dead_letter_policy"}
	return []rpcSpec{
		{name: "CreateTopic", newMsg: func() proto.Message { return &pubsubpb.Topic{} },
			fields: []field{
				{"name", nameAlts("projects/p/topics/new", "topics", func(m proto.Message, v string) { m.(*pubsubpb.Topic).Name = v })[:]},
				{"existing", []alt{{"no", func(m proto.Message) {}}, {"yes", func(m proto.Message) { m.(*pubsubpb.Topic).Name = c16T1 }}}},
				{"extras", []alt{{"none", func(m proto.Message) {}},
					{"kms", func(m proto.Message) { m.(*pubsubpb.Topic).KmsKeyName = "k" }},
					{"labels", func(m proto.Message) { m.(*pubsubpb.Topic).Labels = map[string]string{"": ""} }},
					{"storage-policy", func(m proto.Message) { m.(*pubsubpb.Topic).MessageStoragePolicy = &pubsubpb.MessageStoragePolicy{} }}}},
			},
			invoke: func(ctx context.Context, s *c16Srv, m proto.Message) error {
				_, err := s.pub.CreateTopic(ctx, m.(*pubsubpb.Topic))
				return err
			}},
		{name: "UpdateTopic", newMsg: func() proto.Message { return &pubsubpb.UpdateTopicRequest{Topic: &pubsubpb.Topic{}} },
			fields: []field{
				{"name", nameAlts(c16T1, "topics", func(m proto.Message, v string) { m.(*pubsubpb.UpdateTopicRequest).Topic.Name = v })},
				{"mask", maskAlts([]string{"labels"}, func(m proto.Message, v *fieldmaskpb.FieldMask) { m.(*pubsubpb.UpdateTopicRequest).UpdateMask = v })},
				{"topic", []alt{{"present", func(m proto.Message) {}}, {"absent", func(m proto.Message) { m.(*pubsubpb.UpdateTopicRequest).Topic = nil }}}},
			},
			invoke: func(ctx context.Context, s *c16Srv, m proto.Message) error {
				_, err := s.pub.UpdateTopic(ctx, m.(*pubsubpb.UpdateTopicRequest))
				return err
			}},
		{name: "Publish", newMsg: func() proto.Message { return &pubsubpb.PublishRequest{} },
			fields: []field{
				{"topic", nameAlts(c16T1, "topics", func(m proto.Message, v string) { m.(*pubsubpb.PublishRequest).Topic = v })},
				{"messages", []alt{
					{"one-json", func(m proto.Message) {
						m.(*pubsubpb.PublishRequest).Messages = []*pubsubpb.PubsubMessage{{Data: []byte(`{"a":1}`)}}
					}},
					{"none", func(m proto.Message) {}},
					{"non-json", func(m proto.Message) {
						m.(*pubsubpb.PublishRequest).Messages = []*pubsubpb.PubsubMessage{{Data: []byte(`{"a":`)}}
					}},
					{"empty-data", func(m proto.Message) { m.(*pubsubpb.PublishRequest).Messages = []*pubsubpb.PubsubMessage{{}} }},
					{"nil-message", func(m proto.Message) { m.(*pubsubpb.PublishRequest).Messages = []*pubsubpb.PubsubMessage{nil} }},
					{"good-then-bad", func(m proto.Message) {
						m.(*pubsubpb.PublishRequest).Messages = []*pubsubpb.PubsubMessage{{Data: []byte(`1`)}, {Data: []byte(`x`)}}
					}},
					{"binary", func(m proto.Message) {
						m.(*pubsubpb.PublishRequest).Messages = []*pubsubpb.PubsubMessage{{Data: []byte{0xff, 0x00, 0xfe}, Attributes: map[string]string{"": "\x00"}, OrderingKey: "\x00"}}
					}},
					{"with-ids", func(m proto.Message) {
						m.(*pubsubpb.PublishRequest).Messages = []*pubsubpb.PubsubMessage{{Data: []byte(`1`), MessageId: "zz", PublishTime: &timestamppb.Timestamp{Seconds: -62135596800}}}
					}},
				}},
			},
			invoke: func(ctx context.Context, s *c16Srv, m proto.Message) error {
				_, err := s.pub.Publish(ctx, m.(*pubsubpb.PublishRequest))
				return err
			}},
		{name: "GetTopic", newMsg: func() proto.Message { return &pubsubpb.GetTopicRequest{} },
			fields: []field{{"topic", nameAlts(c16T1, "topics", func(m proto.Message, v string) { m.(*pubsubpb.GetTopicRequest).Topic = v })}},
			invoke: func(ctx context.Context, s *c16Srv, m proto.Message) error {
				_, err := s.pub.GetTopic(ctx, m.(*pubsubpb.GetTopicRequest))
				return err
			}},
		{name: "ListTopics", newMsg: func() proto.Message { return &pubsubpb.ListTopicsRequest{} },
			fields: listFields(func(m proto.Message) (*string, *int32, *string) {
				r := m.(*pubsubpb.ListTopicsRequest)
				return &r.Project, &r.PageSize, &r.PageToken
			}),
			invoke: func(ctx context.Context, s *c16Srv, m proto.Message) error {
				_, err := s.pub.ListTopics(ctx, m.(*pubsubpb.ListTopicsRequest))
				return err
			}},
		{name: "ListTopicSubscriptions", newMsg: func() proto.Message { return &pubsubpb.ListTopicSubscriptionsRequest{} },
			fields: append([]field{{"topic", nameAlts(c16T1, "topics", func(m proto.Message, v string) { m.(*pubsubpb.ListTopicSubscriptionsRequest).Topic = v })}},
				listFields(func(m proto.Message) (*string, *int32, *string) {
					r := m.(*pubsubpb.ListTopicSubscriptionsRequest)
					var dummy string
					return &dummy, &r.PageSize, &r.PageToken
				})[1:]...),
			invoke: func(ctx context.Context, s *c16Srv, m proto.Message) error {
				_, err := s.pub.ListTopicSubscriptions(ctx, m.(*pubsubpb.ListTopicSubscriptionsRequest))
				return err
			}},
		{name: "ListTopicSnapshots", newMsg: func() proto.Message { return &pubsubpb.ListTopicSnapshotsRequest{} },
			fields: []field{{"topic", nameAlts(c16T1, "topics", func(m proto.Message, v string) { m.(*pubsubpb.ListTopicSnapshotsRequest).Topic = v })}},
			invoke: func(ctx context.Context, s *c16Srv, m proto.Message) error {
				_, err := s.pub.ListTopicSnapshots(ctx, m.(*pubsubpb.ListTopicSnapshotsRequest))
				return err
			}},
		{name: "DetachSubscription", newMsg: func() proto.Message { return &pubsubpb.DetachSubscriptionRequest{} },
			fields: []field{{"subscription", nameAlts(c16S2, "subscriptions", func(m proto.Message, v string) { m.(*pubsubpb.DetachSubscriptionRequest).Subscription = v })}},
			invoke: func(ctx context.Context, s *c16Srv, m proto.Message) error {
				_, err := s.pub.DetachSubscription(ctx, m.(*pubsubpb.DetachSubscriptionRequest))
				return err
			}},
		{name: "DeleteTopic", newMsg: func() proto.Message { return &pubsubpb.DeleteTopicRequest{} },
			fields: []field{{"topic", nameAlts(c16T2, "topics", func(m proto.Message, v string) { m.(*pubsubpb.DeleteTopicRequest).Topic = v })}},
			invoke: func(ctx context.Context, s *c16Srv, m proto.Message) error {
				_, err := s.pub.DeleteTopic(ctx, m.(*pubsubpb.DeleteTopicRequest))
				return err
			}},
		{name: "CreateSubscription", newMsg: func() proto.Message { return &pubsubpb.Subscription{} },
			fields: subFields(func(m proto.Message) *pubsubpb.Subscription { return m.(*pubsubpb.Subscription) }, "projects/p/subscriptions/new"),
			invoke: func(ctx context.Context, s *c16Srv, m proto.Message) error {
				_, err := s.sub.CreateSubscription(ctx, m.(*pubsubpb.Subscription))
				return err
			}},
		{name: "GetSubscription", newMsg: func() proto.Message { return &pubsubpb.GetSubscriptionRequest{} },
			fields: []field{{"subscription", nameAlts(c16S1, "subscriptions", func(m proto.Message, v string) { m.(*pubsubpb.GetSubscriptionRequest).Subscription = v })}},
			invoke: func(ctx context.Context, s *c16Srv, m proto.Message) error {
				_, err := s.sub.GetSubscription(ctx, m.(*pubsubpb.GetSubscriptionRequest))
				return err
			}},
		{name: "UpdateSubscription", newMsg: func() proto.Message {
			return &pubsubpb.UpdateSubscriptionRequest{Subscription: &pubsubpb.Subscription{}}
		},
			fields: append(subFields(func(m proto.Message) *pubsubpb.Subscription {
				r := m.(*pubsubpb.UpdateSubscriptionRequest)
				if r.Subscription == nil {
					return &pubsubpb.Subscription{}
				}
				return r.Subscription
			}, c16S2),
				field{"mask", maskAlts(subPaths, func(m proto.Message, v *fieldmaskpb.FieldMask) {
					m.(*pubsubpb.UpdateSubscriptionRequest).UpdateMask = v
				})},
				field{"subscription", []alt{{"present", func(m proto.Message) {}}, {"absent", func(m proto.Message) { m.(*pubsubpb.UpdateSubscriptionRequest).Subscription = nil }}}},
			),
			invoke: func(ctx context.Context, s *c16Srv, m proto.Message) error {
				_, err := s.sub.UpdateSubscription(ctx, m.(*pubsubpb.UpdateSubscriptionRequest))
				return err
			}},
		{name: "ListSubscriptions", newMsg: func() proto.Message { return &pubsubpb.ListSubscriptionsRequest{} },
			fields: listFields(func(m proto.Message) (*string, *int32, *string) {
				r := m.(*pubsubpb.ListSubscriptionsRequest)
				return &r.Project, &r.PageSize, &r.PageToken
			}),
			invoke: func(ctx context.Context, s *c16Srv, m proto.Message) error {
				_, err := s.sub.ListSubscriptions(ctx, m.(*pubsubpb.ListSubscriptionsRequest))
				return err
			}},
		{name: "DeleteSubscription", newMsg: func() proto.Message { return &pubsubpb.DeleteSubscriptionRequest{} },
			fields: []field{{"subscription", nameAlts(c16S3, "subscriptions", func(m proto.Message, v string) { m.(*pubsubpb.DeleteSubscriptionRequest).Subscription = v })}},
			invoke: func(ctx context.Context, s *c16Srv, m proto.Message) error {
				_, err := s.sub.DeleteSubscription(ctx, m.(*pubsubpb.DeleteSubscriptionRequest))
				return err
			}},
		{name: "ModifyAckDeadline", newMsg: func() proto.Message { return &pubsubpb.ModifyAckDeadlineRequest{} },
			fields: []field{
				{"subscription", nameAlts(c16S1, "subscriptions", func(m proto.Message, v string) { m.(*pubsubpb.ModifyAckDeadlineRequest).Subscription = v })},
				{"ack_ids", ackAlts(env, func(m proto.Message, v []string) { m.(*pubsubpb.ModifyAckDeadlineRequest).AckIds = v })},
				{"deadline", int32Alts(30, func(m proto.Message, v int32) { m.(*pubsubpb.ModifyAckDeadlineRequest).AckDeadlineSeconds = v })},
			},
			invoke: func(ctx context.Context, s *c16Srv, m proto.Message) error {
				_, err := s.sub.ModifyAckDeadline(ctx, m.(*pubsubpb.ModifyAckDeadlineRequest))
				return err
			}},
		{name: "Acknowledge", newMsg: func() proto.Message { return &pubsubpb.AcknowledgeRequest{} },
			fields: []field{
				{"subscription", nameAlts(c16S1, "subscriptions", func(m proto.Message, v string) { m.(*pubsubpb.AcknowledgeRequest).Subscription = v })},
				{"ack_ids", ackAlts(env, func(m proto.Message, v []string) { m.(*pubsubpb.AcknowledgeRequest).AckIds = v })},
			},
			invoke: func(ctx context.Context, s *c16Srv, m proto.Message) error {
				_, err := s.sub.Acknowledge(ctx, m.(*pubsubpb.AcknowledgeRequest))
				return err
			}},
		{name: "Pull", newMsg: func() proto.Message { return &pubsubpb.PullRequest{ReturnImmediately: true} },
			ignore: []string{"subscriptions.expires_at", "deliveries.attempt_at", "deliveries.attempts", "deliveries.last_attempted_at"},
			fields: []field{
				{"subscription", nameAlts(c16S1, "subscriptions", func(m proto.Message, v string) { m.(*pubsubpb.PullRequest).Subscription = v },
					[2]string{"valid(dead-letter-topic-deleted,exhausted-delivery-due)", c16S4})},
				{"max_messages", int32Alts(10, func(m proto.Message, v int32) { m.(*pubsubpb.PullRequest).MaxMessages = v })},
				{"return_immediately", []alt{{"true", func(m proto.Message) {}}, {"false", func(m proto.Message) { m.(*pubsubpb.PullRequest).ReturnImmediately = false }}}},
			},
			invoke: func(ctx context.Context, s *c16Srv, m proto.Message) error {
				_, err := s.sub.Pull(ctx, m.(*pubsubpb.PullRequest))
				return err
			}},
		{name: "ModifyPushConfig", newMsg: func() proto.Message { return &pubsubpb.ModifyPushConfigRequest{} },
			fields: []field{
				{"subscription", nameAlts(c16S2, "subscriptions", func(m proto.Message, v string) { m.(*pubsubpb.ModifyPushConfigRequest).Subscription = v })},
				{"push_config", []alt{
					{"endpoint", func(m proto.Message) {
						m.(*pubsubpb.ModifyPushConfigRequest).PushConfig = &pubsubpb.PushConfig{PushEndpoint: "http://127.0.0.1:1/x"}
					}},
					{"absent", func(m proto.Message) {}},
					{"empty", func(m proto.Message) { m.(*pubsubpb.ModifyPushConfigRequest).PushConfig = &pubsubpb.PushConfig{} }},
					{"bad-attr", func(m proto.Message) {
						m.(*pubsubpb.ModifyPushConfigRequest).PushConfig = &pubsubpb.PushConfig{Attributes: map[string]string{"k": "v"}}
					}},
					{"oidc", func(m proto.Message) {
						m.(*pubsubpb.ModifyPushConfigRequest).PushConfig = &pubsubpb.PushConfig{AuthenticationMethod: &pubsubpb.PushConfig_OidcToken_{}}
					}},
				}},
			},
			invoke: func(ctx context.Context, s *c16Srv, m proto.Message) error {
				_, err := s.sub.ModifyPushConfig(ctx, m.(*pubsubpb.ModifyPushConfigRequest))
				return err
			}},
		{name: "GetSnapshot", newMsg: func() proto.Message { return &pubsubpb.GetSnapshotRequest{} },
			fields: []field{{"snapshot", nameAlts(c16N1, "snapshots", func(m proto.Message, v string) { m.(*pubsubpb.GetSnapshotRequest).Snapshot = v })}},
			invoke: func(ctx context.Context, s *c16Srv, m proto.Message) error {
				_, err := s.sub.GetSnapshot(ctx, m.(*pubsubpb.GetSnapshotRequest))
				return err
			}},
		{name: "ListSnapshots", newMsg: func() proto.Message { return &pubsubpb.ListSnapshotsRequest{} },
			fields: listFields(func(m proto.Message) (*string, *int32, *string) {
				r := m.(*pubsubpb.ListSnapshotsRequest)
				return &r.Project, &r.PageSize, &r.PageToken
			}),
			invoke: func(ctx context.Context, s *c16Srv, m proto.Message) error {
				_, err := s.sub.ListSnapshots(ctx, m.(*pubsubpb.ListSnapshotsRequest))
				return err
			}},
		{name: "CreateSnapshot", newMsg: func() proto.Message { return &pubsubpb.CreateSnapshotRequest{} },
			fields: []field{
				{"name", nameAlts("projects/p/snapshots/new", "snapshots", func(m proto.Message, v string) { m.(*pubsubpb.CreateSnapshotRequest).Name = v })},
				{"existing", []alt{{"no", func(m proto.Message) {}}, {"yes", func(m proto.Message) { m.(*pubsubpb.CreateSnapshotRequest).Name = c16N1 }}}},
				{"subscription", nameAlts(c16S1, "subscriptions", func(m proto.Message, v string) { m.(*pubsubpb.CreateSnapshotRequest).Subscription = v })},
				{"labels", []alt{{"none", func(m proto.Message) {}}, {"some", func(m proto.Message) { m.(*pubsubpb.CreateSnapshotRequest).Labels = map[string]string{"": ""} }}}},
			},
			invoke: func(ctx context.Context, s *c16Srv, m proto.Message) error {
				_, err := s.sub.CreateSnapshot(ctx, m.(*pubsubpb.CreateSnapshotRequest))
				return err
			}},
		{name: "UpdateSnapshot", newMsg: func() proto.Message { return &pubsubpb.UpdateSnapshotRequest{} },
			fields: []field{{"snapshot", []alt{{"absent", func(m proto.Message) {}}, {"present", func(m proto.Message) {
				m.(*pubsubpb.UpdateSnapshotRequest).Snapshot = &pubsubpb.Snapshot{Name: c16N1}
			}}}}},
			invoke: func(ctx context.Context, s *c16Srv, m proto.Message) error {
				_, err := s.sub.UpdateSnapshot(ctx, m.(*pubsubpb.UpdateSnapshotRequest))
				return err
			}},
		{name: "DeleteSnapshot", newMsg: func() proto.Message { return &pubsubpb.DeleteSnapshotRequest{} },
			fields: []field{{"snapshot", nameAlts(c16N1, "snapshots", func(m proto.Message, v string) { m.(*pubsubpb.DeleteSnapshotRequest).Snapshot = v })}},
			invoke: func(ctx context.Context, s *c16Srv, m proto.Message) error {
				_, err := s.sub.DeleteSnapshot(ctx, m.(*pubsubpb.DeleteSnapshotRequest))
				return err
			}},
		{name: "Seek", newMsg: func() proto.Message { return &pubsubpb.SeekRequest{} },
			fields: []field{
				{"subscription", nameAlts(c16S1, "subscriptions", func(m proto.Message, v string) { m.(*pubsubpb.SeekRequest).Subscription = v })},
				{"target", []alt{
					{"time-now", func(m proto.Message) {
						m.(*pubsubpb.SeekRequest).Target = &pubsubpb.SeekRequest_Time{Time: timestamppb.Now()}
					}},
					{"none", func(m proto.Message) {}},
					{"time-nil", func(m proto.Message) { m.(*pubsubpb.SeekRequest).Target = &pubsubpb.SeekRequest_Time{} }},
					{"time-year1", func(m proto.Message) {
						m.(*pubsubpb.SeekRequest).Target = &pubsubpb.SeekRequest_Time{Time: &timestamppb.Timestamp{Seconds: -62135596800}}
					}},
					{"time-epoch", func(m proto.Message) {
						m.(*pubsubpb.SeekRequest).Target = &pubsubpb.SeekRequest_Time{Time: &timestamppb.Timestamp{}}
					}},
					{"time-9999", func(m proto.Message) {
						m.(*pubsubpb.SeekRequest).Target = &pubsubpb.SeekRequest_Time{Time: &timestamppb.Timestamp{Seconds: 253402300799}}
					}},
					{"time-invalid", func(m proto.Message) {
						m.(*pubsubpb.SeekRequest).Target = &pubsubpb.SeekRequest_Time{Time: &timestamppb.Timestamp{Seconds: math.MaxInt64, Nanos: -1}}
					}},
					{"snapshot", func(m proto.Message) {
						m.(*pubsubpb.SeekRequest).Target = &pubsubpb.SeekRequest_Snapshot{Snapshot: c16N1}
					}},
					{"snapshot-unknown", func(m proto.Message) {
						m.(*pubsubpb.SeekRequest).Target = &pubsubpb.SeekRequest_Snapshot{Snapshot: "projects/p/snapshots/nope"}
					}},
					{"snapshot-empty", func(m proto.Message) { m.(*pubsubpb.SeekRequest).Target = &pubsubpb.SeekRequest_Snapshot{} }},
					{"snapshot-badname", func(m proto.Message) {
						m.(*pubsubpb.SeekRequest).Target = &pubsubpb.SeekRequest_Snapshot{Snapshot: "x"}
					}},
				}},
			},
			invoke: func(ctx context.Context, s *c16Srv, m proto.Message) error {
				_, err := s.sub.Seek(ctx, m.(*pubsubpb.SeekRequest))
				return err
			}},
		{name: "StreamingPull", newMsg: func() proto.Message { return &pubsubpb.StreamingPullRequest{StreamAckDeadlineSeconds: 10} },
			ignore: []string{"subscriptions.expires_at", "deliveries.attempt_at", "deliveries.attempts", "deliveries.last_attempted_at", "deliveries.completed_at"},
			fields: []field{
				{"subscription", nameAlts(c16S1, "subscriptions", func(m proto.Message, v string) { m.(*pubsubpb.StreamingPullRequest).Subscription = v },
					[2]string{"valid(dead-letter-topic-deleted,exhausted-delivery-due)", c16S4})},
				{"flow", []alt{
					{"default", func(m proto.Message) {}},
					{"negative", func(m proto.Message) {
						r := m.(*pubsubpb.StreamingPullRequest)
						r.MaxOutstandingMessages, r.MaxOutstandingBytes = -1, math.MinInt64
					}},
					{"huge", func(m proto.Message) {
						r := m.(*pubsubpb.StreamingPullRequest)
						r.MaxOutstandingMessages, r.MaxOutstandingBytes = math.MaxInt64, math.MaxInt64
					}},
					{"one", func(m proto.Message) {
						r := m.(*pubsubpb.StreamingPullRequest)
						r.MaxOutstandingMessages, r.MaxOutstandingBytes = 1, 1
					}},
					// byte limits just below / exactly at / just above the size of the
					// backlog messages ({"i":N} = 7 bytes): the remaining budget passes
					// through -1, 0 and 1 while messages are outstanding
					{"bytes-6", func(m proto.Message) {
						r := m.(*pubsubpb.StreamingPullRequest)
						r.MaxOutstandingMessages, r.MaxOutstandingBytes = 10, 6
					}},
					{"bytes-7", func(m proto.Message) {
						r := m.(*pubsubpb.StreamingPullRequest)
						r.MaxOutstandingMessages, r.MaxOutstandingBytes = 10, 7
					}},
					{"bytes-8", func(m proto.Message) {
						r := m.(*pubsubpb.StreamingPullRequest)
						r.MaxOutstandingMessages, r.MaxOutstandingBytes = 10, 8
					}},
					{"bytes-14", func(m proto.Message) {
						r := m.(*pubsubpb.StreamingPullRequest)
						r.MaxOutstandingMessages, r.MaxOutstandingBytes = 10, 14
					}},
					{"messages-2", func(m proto.Message) {
						r := m.(*pubsubpb.StreamingPullRequest)
						r.MaxOutstandingMessages, r.MaxOutstandingBytes = 2, 1000
					}},
				}},
				{"acks", optionalAckAlts(env, func(m proto.Message, v []string) { m.(*pubsubpb.StreamingPullRequest).AckIds = v })},
				// the stream's modify-deadline carries the same id and seconds domains as the
				// unary ModifyAckDeadline (it reaches the same action on another goroutine)
				{"modack_ids", append(optionalAckAlts(env, func(m proto.Message, v []string) {
					r := m.(*pubsubpb.StreamingPullRequest)
					r.ModifyDeadlineAckIds = v
					r.ModifyDeadlineSeconds = make([]int32, len(v))
					for i := range r.ModifyDeadlineSeconds {
						r.ModifyDeadlineSeconds[i] = 10
					}
				}), alt{"len-mismatch", func(m proto.Message) {
					r := m.(*pubsubpb.StreamingPullRequest)
					r.ModifyDeadlineAckIds, r.ModifyDeadlineSeconds = []string{env.liveAck}, nil
				}})},
				{"modack_secs", int32Alts(10, func(m proto.Message, v int32) {
					r := m.(*pubsubpb.StreamingPullRequest)
					for i := range r.ModifyDeadlineSeconds {
						r.ModifyDeadlineSeconds[i] = v
					}
				})},
				{"deadline", int32Alts(10, func(m proto.Message, v int32) { m.(*pubsubpb.StreamingPullRequest).StreamAckDeadlineSeconds = v })[:4]},
			},
			invoke: func(ctx context.Context, s *c16Srv, m proto.Message) error {
				st, err := s.sub.StreamingPull(ctx)
				if err != nil {
					return err
				}
				if err := st.Send(m.(*pubsubpb.StreamingPullRequest)); err != nil {
					return err
				}
				// let the stream's reader and sender goroutines act on the request, then
				// end the stream with a follow-up the server must reject: requests are
				// processed in order, so the status arrives only after the request under
				// test has been applied (and the call does not have to run into its deadline)
				time.Sleep(c16StreamSettle)
				_ = st.Send(&pubsubpb.StreamingPullRequest{ModifyDeadlineAckIds: []string{env.liveAck}})
				for {
					if _, err := st.Recv(); err != nil {
						return err
					}
				}
			}},
	}
}

// c16StreamSettle: how long a StreamingPull is left open before the terminating
// follow-up is sent (set per tier).
var c16StreamSettle = 30 * time.Millisecond

func listFields(get func(m proto.Message) (project *string, pageSize *int32, token *string)) []field {
	return []field{
		{"project", []alt{
			{"valid", func(m proto.Message) { p, _, _ := get(m); *p = "projects/p" }},
			{"empty", func(m proto.Message) {}},
			{"unknown", func(m proto.Message) { p, _, _ := get(m); *p = "projects/zzz" }},
			{"wildcards", func(m proto.Message) { p, _, _ := get(m); *p = "projects/%_\\" }},
			{"bare", func(m proto.Message) { p, _, _ := get(m); *p = "p" }},
		}},
		{"page_size", []alt{
			{"default", func(m proto.Message) {}},
			{"min", func(m proto.Message) { _, s, _ := get(m); *s = math.MinInt32 }},
			{"-1", func(m proto.Message) { _, s, _ := get(m); *s = -1 }},
			{"1", func(m proto.Message) { _, s, _ := get(m); *s = 1 }},
			{"max", func(m proto.Message) { _, s, _ := get(m); *s = math.MaxInt32 }},
		}},
		{"page_token", []alt{
			{"none", func(m proto.Message) {}},
			{"garbage", func(m proto.Message) { _, _, t := get(m); *t = "zz" }},
			{"uuid", func(m proto.Message) { _, _, t := get(m); *t = "00000000-0000-0000-0000-000000000000" }},
			{"max-uuid", func(m proto.Message) { _, _, t := get(m); *t = "ffffffff-ffff-ffff-ffff-ffffffffffff" }},
		}},
	}
}

// combos: every assignment with at most maxDev fields away from their default.
func combos(fields []field, maxDev int) [][]int {
	var out [][]int
	cur := make([]int, len(fields))
	var rec func(i, dev int)
	rec = func(i, dev int) {
		if i == len(fields) {
			out = append(out, append([]int(nil), cur...))
			return
		}
		cur[i] = 0
		rec(i+1, dev)
		if dev < maxDev {
			for a := 1; a < len(fields[i].alts); a++ {
				cur[i] = a
				rec(i+1, dev+1)
			}
			cur[i] = 0
		}
	}
	rec(0, 0)
	return out
}

func runC16(t *testing.T, tier string) int {
	if os.Getenv("VERIF_C16_SERVER") != "" {
		return c16Server()
	}
	t0 := time.Now()
	if tier == "thorough" {
		c16StreamSettle = 150 * time.Millisecond
	}
	sink := &violSink{}
	env := &c16Env{}
	specs := c16Specs(env)
	maxDev := 2
	if tier == "thorough" {
		maxDev = 3
	}
	only := os.Getenv("VERIF_C16_ONLY")
	var srv *c16Srv
	var baseline *world.Snapshot
	restart := func() error {
		if srv != nil {
			srv.stop()
		}
		var err error
		srv, err = startC16Server()
		if err != nil {
			return err
		}
		if err := c16Prepare(srv, env); err != nil {
			return fmt.Errorf("prepare: %w\n%s", err, srv.tail.b)
		}
		baseline, err = world.DumpDB(srv.db, 0)
		return err
	}
	if err := restart(); err != nil {
		fmt.Fprintln(os.Stderr, "C16 harness:", err)
		return 2
	}
	defer func() { srv.stop() }()
	total, crashes, errs, oks, inconclusive := 0, 0, 0, 0, 0
	perRPC := map[string]int{}
	codesSeen := map[string]int{}
	var samples []any
	deadlineBudget := 40 // number of requests allowed to run into the 300ms deadline per RPC
	for _, sp := range specs {
		if only != "" && only != sp.name {
			continue
		}
		dev := maxDev
		if sp.name == "CreateSubscription" || sp.name == "UpdateSubscription" {
			if tier != "thorough" {
				dev = 2
			} else {
				dev = 2 // 3 would be ~10^5 requests per RPC; pairs cover every two-site interaction
			}
		}
		slow := 0
		for _, cmb := range combos(sp.fields, dev) {
			m := sp.newMsg()
			var labels []string
			for fi, ai := range cmb {
				sp.fields[fi].alts[ai].set(m)
				if ai != 0 {
					labels = append(labels, sp.fields[fi].name+"="+sp.fields[fi].alts[ai].label)
				}
			}
			desc := sp.name + "{" + strings.Join(labels, ",") + "}"
			_ = deadlineBudget
			// only calls that block by design get the short deadline; for everything
			// else a client-side timeout under load could race with a server-side
			// commit and look like "error but state changed"
			dl := 15 * time.Second
			if sp.name == "Pull" {
				dl = 300 * time.Millisecond
			}
			if sp.name == "StreamingPull" {
				dl = 3 * time.Second // ended by the client's terminating follow-up long before
			}
			ctx, cancel := context.WithTimeout(context.Background(), dl)
			start := time.Now()
			err := sp.invoke(ctx, srv, m)
			cancel()
			if time.Since(start) > 250*time.Millisecond {
				slow++
			}
			total++
			perRPC[sp.name]++
			code := status.Code(err)
			codesSeen[sp.name+":"+code.String()]++
			if len(samples) < 8 && len(labels) == 2 && total%37 == 0 {
				samples = append(samples, map[string]any{"request": desc, "status": code.String()})
			}
			// give a dying process a moment to be reaped
			if code == codes.Unavailable || code == codes.Internal || code == codes.Unknown {
				time.Sleep(20 * time.Millisecond)
			}
			if !srv.alive() {
				crashes++
				tail := string(srv.tail.b)
				if i := strings.Index(tail, "panic:"); i >= 0 {
					tail = tail[i:]
				}
				if len(tail) > 700 {
					tail = tail[:700]
				}
				sink.add(report.Viol{Property: "C16", Check: "C16/" + sp.name, Rule: "server-crash", Text: fmt.Sprintf("request %s terminated the server process: %s", desc, strings.ReplaceAll(tail, "\n", " | ")), Trace: []string{desc, prototextOf(m)}})
				if err := restart(); err != nil {
					fmt.Fprintln(os.Stderr, "C16 harness: restart:", err)
					return 2
				}
				continue
			}
			if _, ok := status.FromError(err); err != nil && !ok {
				sink.add(report.Viol{Property: "C16", Check: "C16/" + sp.name, Rule: "no-status", Text: fmt.Sprintf("request %s: error without gRPC status: %v", desc, err), Trace: []string{desc}})
			}
			after, derr := world.DumpDB(srv.db, 0)
			if derr != nil {
				fmt.Fprintln(os.Stderr, "C16 harness: dump:", derr)
				return 2
			}
			if err == nil && baseline.Diff(after) != "" {
				// the request changed something: everything must still be readable
				// (a stored value that a reader cannot render wedges Get / List)
				for _, probe := range c16Probes(m) {
					pctx, pcancel := context.WithTimeout(context.Background(), 15*time.Second)
					perr := probe.call(pctx, srv)
					pcancel()
					total++
					if c := status.Code(perr); c == codes.Internal || c == codes.Unknown || c == codes.Unavailable || !srv.alive() {
						sink.add(report.Viol{Property: "C16", Check: "C16/" + sp.name, Rule: "poisoned-state", Text: fmt.Sprintf("after the accepted request %s, %s answers %v", desc, probe.name, perr), Trace: []string{desc, probe.name}})
						if !srv.alive() {
							if err := restart(); err != nil {
								return 2
							}
						}
					}
				}
			}
			if err != nil && code == codes.DeadlineExceeded && sp.name != "Pull" && sp.name != "StreamingPull" {
				// the CLIENT gave up after 15 s (machine overloaded): the server may
				// still have completed the request; no verdict for this one
				inconclusive++
			} else if err != nil {
				errs++
				if d := baseline.DiffIgnoring(after, sp.ignore...); d != "" {
					sink.add(report.Viol{Property: "C16", Check: "C16/" + sp.name, Rule: "error-changed-state", Text: fmt.Sprintf("request %s was answered with %v but the tables changed:\n%s", desc, code, d), Trace: []string{desc, prototextOf(m)}})
				}
			} else {
				oks++
			}
			if baseline.Diff(after) != "" {
				if rerr := world.RestoreDB(srv.db, baseline, 0); rerr != nil {
					fmt.Fprintln(os.Stderr, "C16 harness: restore:", rerr)
					return 2
				}
			}
			// wedge probe after slow requests
			if time.Since(start) > 250*time.Millisecond {
				var perr error
				for try := 0; try < 2; try++ {
					pctx, pcancel := context.WithTimeout(context.Background(), 15*time.Second)
					_, perr = srv.pub.GetTopic(pctx, &pubsubpb.GetTopicRequest{Topic: c16T1})
					pcancel()
					if perr == nil {
						break
					}
				}
				if perr != nil {
					sink.add(report.Viol{Property: "C16", Check: "C16/" + sp.name, Rule: "server-wedged", Text: fmt.Sprintf("after request %s the server no longer answers GetTopic: %v", desc, perr), Trace: []string{desc}})
					if err := restart(); err != nil {
						return 2
					}
				}
			}
		}
	}
	// ---- answers at the size limit: a Pull that takes a backlog of exactly the
	// 10 MiB the handler allows per pull must either answer with all of it, or fail
	// WITHOUT having leased anything
	if only == "" || only == "Pull" {
		if err := restart(); err != nil {
			fmt.Fprintln(os.Stderr, "C16 harness:", err)
			return 2
		}
		bigTopic, bigSub := "projects/p/topics/big", "projects/p/subscriptions/big"
		bctx, bcancel := context.WithTimeout(context.Background(), 120*time.Second)
		_, e1 := srv.pub.CreateTopic(bctx, &pubsubpb.Topic{Name: bigTopic})
		_, e2 := srv.sub.CreateSubscription(bctx, &pubsubpb.Subscription{Name: bigSub, Topic: bigTopic})
		if e1 != nil || e2 != nil {
			bcancel()
			fmt.Fprintln(os.Stderr, "C16 harness: big backlog setup:", e1, e2)
			return 2
		}
		for _, size := range []int{1<<20 - 50, 1 << 20} {
			// ten messages of `size` bytes (JSON strings), one request each
			for i := 0; i < 10; i++ {
				payload := []byte(`"` + strings.Repeat("x", size-2) + `"`)
				if _, err := srv.pub.Publish(bctx, &pubsubpb.PublishRequest{Topic: bigTopic, Messages: []*pubsubpb.PubsubMessage{{Data: payload}}}); err != nil {
					sink.add(report.Viol{Property: "C16", Check: "C16/Pull", Rule: "valid-request-rejected", Text: fmt.Sprintf("Publish of a %d byte JSON payload failed: %v", size, err), Trace: []string{"big-backlog"}})
				}
			}
			before, _ := world.DumpDB(srv.db, 0)
			resp, err := srv.sub.Pull(bctx, &pubsubpb.PullRequest{Subscription: bigSub, MaxMessages: 100, ReturnImmediately: true})
			total++
			perRPC["Pull"]++
			codesSeen["Pull(big):"+status.Code(err).String()]++
			if !srv.alive() {
				sink.add(report.Viol{Property: "C16", Check: "C16/Pull", Rule: "server-crash", Text: fmt.Sprintf("Pull of a backlog of 10 x %d bytes terminated the server", size), Trace: []string{"big-backlog"}})
				break
			}
			after, _ := world.DumpDB(srv.db, 0)
			if err != nil {
				if d := before.DiffIgnoring(after, "subscriptions.expires_at"); d != "" {
					if len(d) > 600 {
						d = d[:600] + " ..."
					}
					sink.add(report.Viol{Property: "C16", Check: "C16/Pull", Rule: "error-changed-state", Text: fmt.Sprintf("Pull of a backlog of 10 x %d bytes was answered with %v but the deliveries changed (the client never got the ack ids):\n%s", size, status.Code(err), d), Trace: []string{"big-backlog", fmt.Sprint(size)}})
				}
			} else {
				var ids []string
				for _, rm := range resp.ReceivedMessages {
					ids = append(ids, rm.AckId)
				}
				if len(ids) > 0 {
					srv.sub.Acknowledge(bctx, &pubsubpb.AcknowledgeRequest{Subscription: bigSub, AckIds: ids})
				}
			}
			// drain what is left for the next size
			for k := 0; k < 20; k++ {
				r, err := srv.sub.Pull(bctx, &pubsubpb.PullRequest{Subscription: bigSub, MaxMessages: 1, ReturnImmediately: true})
				if err != nil || len(r.ReceivedMessages) == 0 {
					break
				}
				srv.sub.Acknowledge(bctx, &pubsubpb.AcknowledgeRequest{Subscription: bigSub, AckIds: []string{r.ReceivedMessages[0].AckId}})
			}
		}
		bcancel()
	}
	if len(samples) == 0 {
		samples = append(samples, "none")
	}
	cov := map[string]any{
		"evaluations":                  total,
		"inconclusive_client_timeouts": inconclusive,
		"distinct_nontrivial":          errs,
		"rule":                         "per RPC: the valid base request and every request that deviates from it in at most 2 fields (thorough: 3 for the small RPCs), each field ranging over its boundary domain; sent over real TCP gRPC to a server subprocess built from grpc.NewGrpcService + services.InitializeGrpcServers; distinct_nontrivial = requests answered with an error status (each compared with the table dump before)",
		"samples":                      samples,
		"per_rpc":                      perRPC,
		"status_codes":                 codesSeen,
		"ok_responses":                 oks,
		"error_responses":              errs,
		"server_crashes":               crashes,
		"exhaustive":                   true,
	}
	ev := report.Evidence{PropertyID: "C16", Tier: tier, Seed: report.Seed(), Level: "exploration", Coverage: cov,
		Assumptions: []string{"a failed Pull / StreamingPull may still have refreshed the subscription's expires_at (and a stream may have leased messages before it was cut)", "requests limited to <=2 (3) simultaneous field deviations from a valid request"}}
	sort.Slice(sink.list, func(i, j int) bool { return sink.list[i].Trace[0] < sink.list[j].Trace[0] })
	return report.Finish(ev, sink.list, t0)
}

type c16Probe struct {
	name string
	call func(ctx context.Context, s *c16Srv) error
}

// c16Probes: read-back requests for whatever the message names.
func c16Probes(m proto.Message) []c16Probe {
	var out []c16Probe
	out = append(out,
		c16Probe{"ListTopics", func(ctx context.Context, s *c16Srv) error {
			_, err := s.pub.ListTopics(ctx, &pubsubpb.ListTopicsRequest{Project: "projects/p"})
			return err
		}},
		c16Probe{"ListSubscriptions", func(ctx context.Context, s *c16Srv) error {
			_, err := s.sub.ListSubscriptions(ctx, &pubsubpb.ListSubscriptionsRequest{Project: "projects/p"})
			return err
		}},
		c16Probe{"ListSnapshots", func(ctx context.Context, s *c16Srv) error {
			_, err := s.sub.ListSnapshots(ctx, &pubsubpb.ListSnapshotsRequest{Project: "projects/p"})
			return err
		}},
	)
	name := ""
	switch x := m.(type) {
	case *pubsubpb.Subscription:
		name = x.Name
	case *pubsubpb.UpdateSubscriptionRequest:
		name = x.GetSubscription().GetName()
	case *pubsubpb.ModifyPushConfigRequest:
		name = x.Subscription
	}
	if name != "" {
		out = append(out, c16Probe{"GetSubscription(" + name + ")", func(ctx context.Context, s *c16Srv) error {
			_, err := s.sub.GetSubscription(ctx, &pubsubpb.GetSubscriptionRequest{Subscription: name})
			if status.Code(err) == codes.NotFound || status.Code(err) == codes.InvalidArgument {
				return nil
			}
			return err
		}})
	}
	return out
}

func prototextOf(m proto.Message) string {
	s := fmt.Sprint(m)
	if len(s) > 400 {
		s = s[:400] + "…"
	}
	return s
}
