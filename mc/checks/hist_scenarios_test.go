package checks

import (
	"time"

	"verif/mc/filt"
	"verif/mc/hist"
	"verif/mc/model"
)

func seekT(sub, tgt string) model.Op { return model.Op{K: "seekT", Sub: sub, Tgt: tgt} }
func stream(sub, where, sel string) model.Op {
	return model.Op{K: "stream", Sub: sub, Tgt: where, Sel: sel}
}
func pullW(sub string, max int) model.Op { return model.Op{K: "pull", Sub: sub, Max: max, Tgt: "wait"} }
func pullWaitPub(sub, topic string, d time.Duration) model.Op {
	return model.Op{K: "pullWaitPub", Sub: sub, Topic: topic, Max: 10, D: d}
}
func pullAbandon(sub string) model.Op { return model.Op{K: "pull", Sub: sub, Max: 10, Tgt: "abandon"} }
func reconfig(sub, what string) model.Op { return model.Op{K: "reconfig", Sub: sub, Tgt: what} }
func pubTie(topic string, keys ...string) model.Op {
	return model.Op{K: "pub", Tgt: "tie", Topic: topic, Keys: keys, Attrs: make([]int, len(keys))}
}
func snap(sub, name string) model.Op     { return model.Op{K: "snap", Sub: sub, Name: name} }
func seekS(sub, name string) model.Op    { return model.Op{K: "seekS", Sub: sub, Name: name} }
func sweep() model.Op                    { return model.Op{K: "sweepDL", Max: 100} }
func delSub(s string) model.Op           { return model.Op{K: "deleteSub", Sub: s} }
func mkSub(s string) model.Op            { return model.Op{K: "createSub", Sub: s} }
func delTopic(t string) model.Op         { return model.Op{K: "deleteTopic", Topic: t} }
func mkTopic(t string) model.Op          { return model.Op{K: "createTopic", Topic: t} }

func d(tier string, quick, thorough int) int {
	if tier == "thorough" {
		return thorough
	}
	return quick
}

var fX = filt.H("x") // attributes:x

func init() {
	// ---------------------------------------------------------------- C01
	histChecks["C01"] = func(tier string) []*hist.Scenario {
		return []*hist.Scenario{
			{
				// ordered delivery + maintenance: pruning an acknowledged (or expired)
				// predecessor must leave its successors deliverable
				ID: "C01/ordered+prune", Prop: "C01", Depth: d(tier, 5, 6), Drain: true,
				Cfg: model.Cfg{Topics: []string{"T0"}, Subs: []model.SubCfg{
					{Name: "S0", Topic: "T0", Ordered: true, Retention: 10 * time.Minute},
				}},
				Prelude: []model.Op{pubN("T0", "K1", "K1")},
				Alphabet: []model.Op{
					pull("S0", 1), pull("S0", 10), ack("S0", "oldest"), pub1("T0", "K1", 0),
					tick("lease+"), tick("ret+"),
					job("prune-completed-deliveries", 0, 100), job("prune-completed-deliveries", 0, 1), job("prune-expired-deliveries", 0, 100), job("prune-completed-messages", 0, 100),
				},
			},
			{
				ID: "C01/plain+filtered+prune", Prop: "C01", Depth: d(tier, 5, 7), Drain: true,
				Cfg: model.Cfg{Topics: []string{"T0"}, Subs: []model.SubCfg{
					{Name: "S0", Topic: "T0"},
					{Name: "S1", Topic: "T0", Filter: fX},
				}},
				Alphabet: []model.Op{
					pub1("T0", "", 0), pub1("T0", "", 1), pubN("T0", "", ""),
					pull("S0", 1), pull("S0", 10), pull("S1", 10),
					ack("S0", "oldest"), ack("S0", "all"), ack("S1", "all"),
					modack("S0", "all", 0), modack("S0", "oldest", 30*time.Second), nack("S0", "oldest"),
					tick("lease+"), tick("lease-"),
					job("prune-completed-deliveries", 0, 100), job("prune-completed-messages", 0, 100), job("prune-expired-deliveries", 0, 100),
				},
			},
			{
				ID: "C01/deadletter", Prop: "C01", Depth: d(tier, 7, 9), Drain: true,
				Cfg: model.Cfg{Topics: []string{"T0", "TD"}, Subs: []model.SubCfg{
					{Name: "S0", Topic: "T0", DLTopic: "TD", MaxAttempts: 2},
					{Name: "SD", Topic: "TD"},
				}},
				Alphabet: []model.Op{
					pub1("T0", "", 0),
					pull("S0", 1), pull("S0", 10), pull("SD", 10),
					ack("S0", "oldest"), ack("SD", "all"),
					modack("S0", "all", 0), nack("S0", "oldest"), nack("S0", "all"),
					sweep(), tick("lease+"),
				},
			},
			{
				ID: "C01/lifecycle+seek+retention", Prop: "C01", Depth: d(tier, 5, 6), Drain: true,
				Cfg: model.Cfg{Topics: []string{"T0"}, Subs: []model.SubCfg{
					{Name: "S0", Topic: "T0", Ordered: true, Retention: 10 * time.Minute},
					{Name: "S1", Topic: "T0", Retention: 40 * time.Second},
				}},
				Alphabet: []model.Op{
					pub1("T0", "K1", 0), pub1("T0", "", 0),
					pull("S0", 10), pull("S1", 10),
					ack("S0", "oldest"), ack("S1", "all"),
					seekT("S0", "before-all"), seekT("S0", "after-0"), seekT("S1", "before-all"),
					snap("S0", "N0"), seekS("S0", "N0"),
					delSub("S1"), mkSub("S1"),
					tick("lease+"), tick("ret-"), tick("ret+"),
					job("prune-expired-deliveries", 0, 100), job("prune-deleted-subscription-deliveries", 0, 100),
				},
			},
			{
				ID: "C01/filter-changed-or-name-reused", Prop: "C01", Depth: d(tier, 6, 7), Drain: true,
				Cfg: model.Cfg{Topics: []string{"T0"}, Subs: []model.SubCfg{
					{Name: "S0", Topic: "T0", Filter: fX},
					{Name: "S1", Topic: "T0"},
				}, Alt: []model.SubCfg{{Name: "S0", Topic: "T0", Filter: filt.N(filt.H("x"))}}},
				Alphabet: []model.Op{
					pub1("T0", "", 0), pub1("T0", "", 1),
					pull("S0", 10), ack("S0", "all"),
					delSub("S0"), mkSub("S0"), {K: "createSub", Sub: "S0", Tgt: "alt"},
					reconfig("S0", "filter:notx"), reconfig("S0", "filter:none"), reconfig("S0", "filter:x"), reconfig("S1", "filter:x=1"),
				},
			},
			{
				ID: "C01/topic-recreated-under-subscriptions", Prop: "C01", Depth: d(tier, 5, 6), Drain: true,
				Cfg: model.Cfg{Topics: []string{"T0"}, Subs: []model.SubCfg{
					{Name: "S0", Topic: "T0"},
					{Name: "S1", Topic: "T0", Ordered: true},
				}},
				Alphabet: []model.Op{
					pub1("T0", "K1", 0), pubN("T0", "", "K1"),
					pull("S0", 1), pull("S0", 10), pull("S1", 10),
					ack("S0", "oldest"), ack("S1", "oldest"), nack("S0", "all"),
					delTopic("T0"), mkTopic("T0"), delSub("S1"), mkSub("S1"),
					tick("lease+"),
					job("prune-deleted-topics", 0, 100), job("prune-completed-messages", 0, 100), job("prune-deleted-subscription-deliveries", 0, 100), job("prune-deleted-subscriptions", 0, 100),
				},
			},
			{
				// a subscription that sat idle past its expiration TTL but was not swept
				// yet is still attached: a publish in that window must reach it
				ID: "C01/idle-past-ttl", Prop: "C01", Depth: d(tier, 5, 6), Drain: true, PastForeign: true,
				Cfg: model.Cfg{Topics: []string{"T0"}, Subs: []model.SubCfg{
					{Name: "S0", Topic: "T0", TTL: 2 * time.Minute, Retention: 10 * time.Minute},
					// (a TTL LONGER than the retention: the two durations must not be confused)
					{Name: "S1", Topic: "T0", TTL: time.Hour, Retention: 10 * time.Minute},
				}},
				Alphabet: []model.Op{
					pub1("T0", "", 0),
					pull("S0", 10), pull("S1", 10), ack("S0", "all"),
					// a long poll the client gives up on is use of the subscription too
					pullAbandon("S0"),
					tick("ttl-"), tick("ttl+"), tick("lease+"), tick("ret+"),
					job("delete-expired-subscriptions", 0, 100), mkSub("S0"),
				},
			},
			{
				ID: "C01/siblings+snapshot-seek", Prop: "C01", Depth: d(tier, 7, 9), Drain: true,
				Cfg: model.Cfg{Topics: []string{"T0"}, Subs: []model.SubCfg{
					{Name: "S0", Topic: "T0"},
					{Name: "S1", Topic: "T0"},
				}},
				Alphabet: []model.Op{
					pub1("T0", "", 0),
					pull("S0", 10), pull("S1", 10),
					ack("S0", "oldest"), ack("S0", "newest"), ack("S1", "all"),
					snap("S0", "N0"), seekS("S0", "N0"), seekS("S1", "N0"),
					seekT("S0", "before-all"), seekT("S1", "after-0"),
				},
			},
		}
	}

	// ---------------------------------------------------------------- C02
	histChecks["C02"] = func(tier string) []*hist.Scenario {
		return []*hist.Scenario{
			{
				ID: "C02/two-topics-three-subs", Prop: "C02", Depth: d(tier, 5, 6), Drain: true,
				Cfg: model.Cfg{Topics: []string{"T0", "T1"}, Subs: []model.SubCfg{
					{Name: "S0", Topic: "T0"},
					{Name: "S1", Topic: "T0", Filter: fX},
					{Name: "S2", Topic: "T1", Ordered: true},
				}},
				Alphabet: []model.Op{
					pub1("T0", "", 0), pub1("T0", "K1", 1), pub1("T1", "K1", 2), pubN("T1", "K1", ""),
					pull("S0", 1), pull("S0", 10), pull("S1", 1), pull("S1", 10), pull("S2", 1), pull("S2", 10),
					ack("S0", "oldest"), ack("S1", "all"), ack("S2", "oldest"),
					nack("S0", "all"), modack("S1", "all", 0),
					seekT("S0", "before-all"), seekT("S2", "now"),
					delSub("S1"), mkSub("S1"), reconfig("S1", "filter:notx"), reconfig("S0", "filter:x=1"),
					tick("lease+"),
				},
			},
			{
				// a topic deleted and created again under a subscription that stays behind
				// (detached): the new topic only shares the old one's NAME
				ID: "C02/topic-recreated-under-subscriptions", Prop: "C02", Depth: d(tier, 5, 6), Drain: true,
				Cfg: model.Cfg{Topics: []string{"T0"}, Subs: []model.SubCfg{
					{Name: "S0", Topic: "T0"},
					{Name: "S1", Topic: "T0", Filter: fX},
				}},
				Alphabet: []model.Op{
					pub1("T0", "", 0), pub1("T0", "", 1),
					pull("S0", 10), pull("S1", 10), ack("S0", "oldest"),
					delTopic("T0"), mkTopic("T0"), delSub("S1"), mkSub("S1"),
					tick("lease+"),
				},
			},
			{
				ID: "C02/deadletter-forwarding", Prop: "C02", Depth: d(tier, 6, 7), Drain: true,
				Cfg: model.Cfg{Topics: []string{"T0", "TD"}, Subs: []model.SubCfg{
					{Name: "S0", Topic: "T0", DLTopic: "TD", MaxAttempts: 1},
					{Name: "S1", Topic: "T0"},
					{Name: "SD", Topic: "TD", Filter: fX},
					{Name: "SE", Topic: "TD"},
				}},
				Alphabet: []model.Op{
					pub1("T0", "", 0), pub1("T0", "", 1), pub1("TD", "", 1),
					pull("S0", 10), pull("S1", 10), pull("SD", 10), pull("SE", 1),
					ack("S1", "all"), ack("SD", "all"), ack("SE", "oldest"),
					nack("S0", "all"), sweep(), tick("lease+"),
				},
			},
		}
	}

	// ---------------------------------------------------------------- C03
	histChecks["C03"] = func(tier string) []*hist.Scenario {
		return []*hist.Scenario{
			{
				ID: "C03/ordered+dl and filtered", Prop: "C03", Depth: d(tier, 7, 9), Drain: true,
				Cfg: model.Cfg{Topics: []string{"T0", "TD"}, Subs: []model.SubCfg{
					{Name: "S0", Topic: "T0", Ordered: true, DLTopic: "TD", MaxAttempts: 2},
					{Name: "S1", Topic: "T0", Filter: fX},
					{Name: "SD", Topic: "TD"},
				}},
				Alphabet: []model.Op{
					pub1("T0", "K1", 1),
					pull("S0", 10), pull("S1", 10),
					ack("S0", "oldest"), ack("S0", "all"), ack("S0", "stale"), ack("S0", "unknown"), ack("S0", "dup"), ack("S0", "mixed"), ack("S1", "all"),
					modack("S0", "stale", 0), modack("S0", "stale", 30*time.Second), modack("S0", "mixed", 0),
					nack("S0", "stale"), nack("S0", "mixed"),
					sweep(), tick("lease+"),
					job("prune-completed-deliveries", time.Hour, 100),
				},
			},
			{
				ID: "C03/foreign-ids", Prop: "C03", Depth: d(tier, 7, 9), Drain: true,
				Cfg: model.Cfg{Topics: []string{"T0"}, Subs: []model.SubCfg{
					{Name: "S0", Topic: "T0"},
					{Name: "S1", Topic: "T0"},
				}},
				Alphabet: []model.Op{
					pub1("T0", "", 0),
					pull("S0", 10), pull("S1", 10),
					ack("S0", "all"), ack("S0", "foreign"), ack("S1", "stale"),
					// one request carrying ids of BOTH subscriptions: its own ids are settled
					ack("S0", "span"), ack("S1", "span"),
					modack("S0", "foreign", 0), nack("S1", "stale"),
					tick("lease+"),
				},
			},
			{
				// acks / nacks / deadline extensions carried by StreamingPull requests
				// (in the opening request and in later ones), through the real handler
				ID: "C03/streaming-acks", Prop: "C03", Depth: d(tier, 7, 8), Drain: true,
				Cfg: model.Cfg{Topics: []string{"T0"}, Subs: []model.SubCfg{
					{Name: "S0", Topic: "T0"},
				}},
				Alphabet: []model.Op{
					pub1("T0", "", 0),
					pull("S0", 1), pull("S0", 10),
					stream("S0", "plain", ""), stream("S0", "open-ack", "oldest"), stream("S0", "open-ack", "all"), stream("S0", "later-ack", "oldest"), stream("S0", "later-ack", "stale"),
					stream("S0", "open-nack", "oldest"), stream("S0", "later-nack", "all"), stream("S0", "later-extend", "all"), stream("S0", "open-ack", "mixed"),
					stream("S0", "later-ack-mixed", "oldest"), stream("S0", "later-ack-mixed", "stale"),
					ack("S0", "oldest"), tick("lease+"),
				},
			},
			{
				// one StreamingPull request that carries acks AND deadline changes
				ID: "C03/stream-requests-combined", Prop: "C03", Depth: d(tier, 5, 6), Drain: true,
				Cfg: model.Cfg{Topics: []string{"T0"}, Subs: []model.SubCfg{
					{Name: "S0", Topic: "T0"},
				}},
				Prelude: []model.Op{pubN("T0", "", "")},
				Alphabet: []model.Op{
					stream("S0", "later-ack+extend", "all"), stream("S0", "later-ack+nack", "all"), stream("S0", "plain", ""),
					pull("S0", 1), pull("S0", 10), pub1("T0", "", 0), tick("lease+"),
				},
			},
			{
				// one stream that lives across a Seek: what it delivered and acknowledged
				// before the seek is delivered again (rightly) and acknowledged again on
				// the SAME stream - the second ack is as final as the first
				ID: "C03/stream-ack-across-a-seek", Prop: "C03", Depth: d(tier, 5, 6), Drain: true,
				Cfg: model.Cfg{Topics: []string{"T0"}, Subs: []model.SubCfg{
					{Name: "S0", Topic: "T0"},
				}},
				Prelude: []model.Op{pubN("T0", "", "")},
				Alphabet: []model.Op{
					stream("S0", "ack-seek-ack", ""), stream("S0", "plain", ""),
					pull("S0", 1), pull("S0", 10), ack("S0", "oldest"),
					pub1("T0", "", 0), seekT("S0", "before-all"), tick("lease+"),
				},
			},
			{
				// a subscription idle past its TTL but not yet swept is alive for every
				// operation: acks, nacks and deadline changes on it take effect
				ID: "C03/idle-past-ttl", Prop: "C03", Depth: d(tier, 6, 7), Drain: true,
				Cfg: model.Cfg{Topics: []string{"T0"}, Subs: []model.SubCfg{
					{Name: "S0", Topic: "T0", TTL: 2 * time.Minute, Retention: 20 * time.Minute},
				}},
				Alphabet: []model.Op{
					pub1("T0", "", 0), pull("S0", 10),
					ack("S0", "oldest"), ack("S0", "all"), modack("S0", "all", 0), modack("S0", "all", 60*time.Second), nack("S0", "oldest"),
					tick("ttl+"), tick("lease+"),
					job("delete-expired-subscriptions", 0, 100),
				},
			},
			{
				ID: "C03/sibling-seek-and-snapshot", Prop: "C03", Depth: d(tier, 6, 7), Drain: true,
				Cfg: model.Cfg{Topics: []string{"T0", "T1"}, Subs: []model.SubCfg{
					{Name: "S0", Topic: "T0"},
					{Name: "S1", Topic: "T0"},
					{Name: "S2", Topic: "T1"},
				}},
				Alphabet: []model.Op{
					pub1("T0", "", 0), pub1("T1", "", 0),
					pull("S0", 10), pull("S1", 10), pull("S2", 10),
					ack("S0", "all"), ack("S1", "all"), ack("S2", "all"),
					seekT("S1", "before-all"), seekT("S2", "before-all"), snap("S1", "N1"), seekS("S1", "N1"),
					tick("lease+"),
				},
			},
		}
	}

	// ---------------------------------------------------------------- C04
	histChecks["C04"] = func(tier string) []*hist.Scenario {
		type pol struct {
			name     string
			min, max time.Duration
		}
		pols := []pol{
			{"default", 0, 0},
			{"min1s", time.Second, 0},
			{"min100ms", 100 * time.Millisecond, 0},
			{"max30s", 0, 30 * time.Second},
			{"min20m", 20 * time.Minute, 0},
			{"min5s-max8s", 5 * time.Second, 8 * time.Second},
			{"min1h-max3h", time.Hour, 3 * time.Hour},
		}
		if tier != "thorough" {
			pols = []pol{pols[0], pols[2], pols[5], pols[4]}
		}
		var out []*hist.Scenario
		for _, p := range pols {
			out = append(out, &hist.Scenario{
				ID: "C04/policy-" + p.name, Prop: "C04", Depth: d(tier, 5, 6), Drain: true,
				Cfg: model.Cfg{Topics: []string{"T0"}, Subs: []model.SubCfg{
					{Name: "S0", Topic: "T0", MinBackoff: p.min, MaxBackoff: p.max, Retention: 100 * 24 * time.Hour},
				}},
				Prelude: []model.Op{pubN("T0", "", "")},
				Alphabet: []model.Op{
					pull("S0", 1), pull("S0", 10),
					modack("S0", "oldest", 0), modack("S0", "all", 5*time.Second), modack("S0", "oldest", 60*time.Second),
					nack("S0", "oldest"), ack("S0", "oldest"),
					tick("lease-"), tick("lease+"), tick("lease++"),
					pub1("T0", "", 0),
					reconfig("S0", "retry:30s-max40s"), reconfig("S0", "retry:none"),
					pullW("S0", 10),
				},
			})
		}
		// deadline changes sent as SEVERAL requests on one stream (the wrapper that turns
		// gRPC requests into streamer requests lives as long as the stream)
		out = append(out, &hist.Scenario{
			ID: "C04/stream-deadline-requests", Prop: "C04", Depth: d(tier, 5, 6), Drain: true,
			Cfg: model.Cfg{Topics: []string{"T0"}, Subs: []model.SubCfg{
				{Name: "S0", Topic: "T0", MinBackoff: 10 * time.Second, MaxBackoff: 60 * time.Second, Retention: 100 * 24 * time.Hour},
			}},
			Prelude: []model.Op{pubN("T0", "", "")},
			Alphabet: []model.Op{
				pull("S0", 1), pull("S0", 10),
				stream("S0", "later-extend-then-nack", "all"), stream("S0", "later-extend", "all"), stream("S0", "later-nack", "oldest"), stream("S0", "plain", ""),
				tick("lease-"), tick("lease+"),
			},
		})
		// a policy updated to an explicit zero on one side: zero is "not configured"
		out = append(out, &hist.Scenario{
			ID: "C04/explicit-zero-backoff", Prop: "C04", Depth: d(tier, 5, 6), Drain: true,
			Cfg: model.Cfg{Topics: []string{"T0"}, Subs: []model.SubCfg{
				{Name: "S0", Topic: "T0", MinBackoff: 2 * time.Second, MaxBackoff: 60 * time.Second, Retention: 100 * 24 * time.Hour},
			}},
			Prelude: []model.Op{pubN("T0", "", "")},
			Alphabet: []model.Op{
				pull("S0", 1), pull("S0", 10), nack("S0", "oldest"), modack("S0", "oldest", 0),
				tick("lease-"), tick("lease+"),
				reconfig("S0", "retry:5s-max0"), reconfig("S0", "retry:min0-max40s"),
				pullW("S0", 10),
			},
		})
		// the lease bookkeeping must land on the message that was handed out even when
		// an earlier candidate of the same batch is passed over (retired into the
		// dead-letter topic by this very pull)
		out = append(out, &hist.Scenario{
			ID: "C04/batch-with-a-retired-candidate", Prop: "C04", Depth: d(tier, 6, 7), Drain: true,
			Cfg: model.Cfg{Topics: []string{"T0", "TD"}, Subs: []model.SubCfg{
				{Name: "S0", Topic: "T0", DLTopic: "TD", MaxAttempts: 1, Retention: 100 * 24 * time.Hour},
				{Name: "SD", Topic: "TD"},
			}},
			Alphabet: []model.Op{
				pub1("T0", "", 0), pubN("T0", "", ""),
				pull("S0", 1), pull("S0", 10), pull("SD", 10),
				modack("S0", "oldest", 0), ack("S0", "oldest"),
				tick("lease-"), tick("lease+"),
			},
		})
		// (b) saturation skeleton: consecutive expire-and-redeliver rounds up to and
		// beyond the attempt at which min*1.1^n reaches maxBackoff (n = 43 for the
		// defaults), with every single extra operation inserted at every position
		// and pairs on a position grid
		rounds := 48
		grid := 12
		if tier != "thorough" {
			rounds, grid = 46, 0
		}
		var sk []model.Op
		for i := 0; i < rounds; i++ {
			sk = append(sk, pull("S0", 10), tick("lease++"))
		}
		dev := []model.Op{tick("lease-"), modack("S0", "oldest", 0), modack("S0", "all", 60*time.Second), nack("S0", "oldest"), pull("S0", 1), tick("lease+"), pub1("T0", "", 0)}
		out = append(out, &hist.Scenario{
			ID: "C04/skeleton-saturation-default-policy", Prop: "C04",
			Cfg:      model.Cfg{Topics: []string{"T0"}, Subs: []model.SubCfg{{Name: "S0", Topic: "T0", Retention: 100 * 24 * time.Hour}}},
			Prelude:  []model.Op{pubN("T0", "", "")},
			Alphabet: append(append([]model.Op{}, dev...), pull("S0", 10), tick("lease++")),
			Skeleton: &hist.Skeleton{Path: sk, Deviate: dev, PairGrid: grid},
		})
		return out
	}

	// ---------------------------------------------------------------- C06
	histChecks["C06"] = func(tier string) []*hist.Scenario {
		alpha := func(extra ...model.Op) []model.Op {
			base := []model.Op{
				pub1("T0", "", 1),
				pull("S0", 1), pull("S0", 10),
				nack("S0", "oldest"), modack("S0", "all", 0), ack("S0", "oldest"),
				sweep(), tick("lease+"), tick("lease-"),
				nack("S0", "stale"), modack("S0", "stale", 0),
				// one request naming the same id twice
				nack("S0", "dup"),
			}
			return append(base, extra...)
		}
		var out []*hist.Scenario
		for _, n := range []int{1, 2, 3} {
			if tier != "thorough" && n == 3 {
				continue
			}
			out = append(out, &hist.Scenario{
				ID: "C06/N" + string(rune('0'+n)) + "-two-dl-subs", Prop: "C06", Depth: d(tier, 6, 7), Drain: true,
				Cfg: model.Cfg{Topics: []string{"T0", "TD"}, Subs: []model.SubCfg{
					{Name: "S0", Topic: "T0", DLTopic: "TD", MaxAttempts: n},
					{Name: "SD", Topic: "TD"},
					{Name: "SF", Topic: "TD", Filter: fX},
				}},
				Alphabet: alpha(pub1("T0", "", 0), pull("SD", 10), pull("SF", 10), ack("SD", "all")),
			})
		}
		out = append(out,
			&hist.Scenario{
				// the policy is tightened (N lowered to 1) while a message has already been
				// delivered more often than that: it is over the limit, however far
				ID: "C06/policy-tightened", Prop: "C06", Depth: d(tier, 6, 7), Drain: true,
				Cfg: model.Cfg{Topics: []string{"T0", "TD"}, Subs: []model.SubCfg{
					{Name: "S0", Topic: "T0", DLTopic: "TD", MaxAttempts: 3},
					{Name: "SD", Topic: "TD"},
				}},
				Prelude: []model.Op{pub1("T0", "", 1)},
				Alphabet: []model.Op{
					pull("S0", 10), modack("S0", "all", 0), nack("S0", "oldest"), tick("lease+"),
					reconfig("S0", "dl:TD"), pull("SD", 10), sweep(),
				},
			},
			&hist.Scenario{
				ID: "C06/no-dl-subscriber+deleted-topic", Prop: "C06", Depth: d(tier, 6, 8), Drain: true,
				Cfg: model.Cfg{Topics: []string{"T0", "TD"}, Subs: []model.SubCfg{
					{Name: "S0", Topic: "T0", DLTopic: "TD", MaxAttempts: 1},
					{Name: "SD", Topic: "TD"},
				}},
				Alphabet: alpha(delTopic("TD"), mkTopic("TD"), delSub("SD"), mkSub("SD"), pull("SD", 10)),
			},
			&hist.Scenario{
				// two source subscriptions give up on the SAME message into one dead-letter
				// topic: each retirement forwards, whatever the subscriber still holds
				ID: "C06/two-sources-one-deadletter-topic", Prop: "C06", Depth: d(tier, 6, 7), Drain: true,
				Cfg: model.Cfg{Topics: []string{"T0", "TD"}, Subs: []model.SubCfg{
					{Name: "S0", Topic: "T0", DLTopic: "TD", MaxAttempts: 1},
					{Name: "S1", Topic: "T0", DLTopic: "TD", MaxAttempts: 1},
					{Name: "SD", Topic: "TD"},
				}},
				Alphabet: []model.Op{
					pub1("T0", "", 0),
					pull("S0", 10), pull("S1", 10), pull("SD", 10),
					nack("S0", "all"), nack("S1", "all"), ack("SD", "oldest"), ack("SD", "all"),
					sweep(), tick("lease+"),
				},
			},
			&hist.Scenario{
				// retention ends while the last attempt's lease has lapsed and before
				// anything looked at the delivery: an expired message is not forwarded
				ID: "C06/retention-ends-first", Prop: "C06", Depth: d(tier, 6, 7), Drain: true,
				Cfg: model.Cfg{Topics: []string{"T0", "TD"}, Subs: []model.SubCfg{
					{Name: "S0", Topic: "T0", DLTopic: "TD", MaxAttempts: 1, Retention: 40 * time.Second},
					{Name: "SD", Topic: "TD"},
				}},
				Alphabet: []model.Op{
					pub1("T0", "", 0),
					pull("S0", 10), pull("SD", 10), nack("S0", "all"), ack("S0", "all"),
					sweep(), tick("lease+"), tick("ret-"), tick("ret+"),
				},
			},
			&hist.Scenario{
				ID: "C06/chain+ordered-dl", Prop: "C06", Depth: d(tier, 7, 9), Drain: true,
				Cfg: model.Cfg{Topics: []string{"T0", "TD", "TE"}, Subs: []model.SubCfg{
					{Name: "S0", Topic: "T0", DLTopic: "TD", MaxAttempts: 1},
					{Name: "SD", Topic: "TD", DLTopic: "TE", MaxAttempts: 1, Ordered: true},
					{Name: "SE", Topic: "TE"},
				}},
				Alphabet: []model.Op{
					pub1("T0", "K1", 1),
					pull("S0", 10), pull("SD", 1), pull("SD", 10), pull("SE", 10),
					nack("S0", "all"), nack("SD", "oldest"), ack("SD", "oldest"), ack("SE", "all"),
					nack("S0", "stale"), nack("SD", "stale"),
					sweep(), tick("lease+"),
				},
			},
		)
		return out
	}

	// ---------------------------------------------------------------- C13
	histChecks["C13"] = func(tier string) []*hist.Scenario {
		return []*hist.Scenario{
			{
				// publish times that are EQUAL (one batch on a coarse clock): the snapshot
				// boundary sits on a time shared by an acknowledged and an unacknowledged message
				ID: "C13/tied-publish-times", Prop: "C13", Depth: d(tier, 6, 7), Drain: true,
				Cfg: model.Cfg{Topics: []string{"T0"}, Subs: []model.SubCfg{
					{Name: "S0", Topic: "T0"},
					{Name: "S1", Topic: "T0"},
				}},
				Prelude: []model.Op{pubTie("T0", "", ""), pub1("T0", "", 0)},
				Alphabet: []model.Op{
					pull("S0", 1), pull("S0", 10),
					ack("S0", "oldest"), ack("S0", "newest"), ack("S0", "all"),
					snap("S0", "N0"), seekS("S0", "N0"), seekS("S1", "N0"),
					pubTie("T0", "", ""), tick("lease+"),
				},
			},
			{
				ID: "C13/siblings", Prop: "C13", Depth: d(tier, 6, 7), Drain: true,
				Cfg: model.Cfg{Topics: []string{"T0", "T1"}, Subs: []model.SubCfg{
					{Name: "S0", Topic: "T0"},
					{Name: "S1", Topic: "T0"},
					{Name: "S2", Topic: "T1"},
				}},
				Alphabet: []model.Op{
					pub1("T0", "", 0), pub1("T1", "", 0),
					pull("S0", 1), pull("S0", 10), pull("S1", 10),
					ack("S0", "oldest"), ack("S0", "newest"), ack("S0", "all"), ack("S1", "all"),
					snap("S0", "N0"), snap("S1", "N1"),
					seekS("S0", "N0"), seekS("S0", "N1"), seekS("S1", "N0"),
					seekT("S0", "before-all"), seekT("S0", "after-0"), seekT("S0", "after-1"), seekT("S0", "exact-0"), seekT("S0", "now"), seekT("S0", "future"),
					tick("+1s"), tick("lease+"),
				},
			},
			{
				// a sibling that does not receive every message (filter) or that was
				// created later: a message it never had counts as acknowledged on it
				ID: "C13/filtered-and-late-sibling", Prop: "C13", Depth: d(tier, 6, 7), Drain: true,
				Cfg: model.Cfg{Topics: []string{"T0"}, Subs: []model.SubCfg{
					{Name: "S0", Topic: "T0"},
					{Name: "S1", Topic: "T0", Filter: fX},
					{Name: "S2", Topic: "T0"},
				}, Lazy: []string{"S2"}},
				Alphabet: []model.Op{
					pub1("T0", "", 0), pub1("T0", "", 1), mkSub("S2"),
					pull("S1", 10), ack("S1", "newest"), ack("S1", "oldest"),
					pull("S0", 10), ack("S0", "all"),
					snap("S1", "N1"), snap("S2", "N2"), seekS("S0", "N1"), seekS("S0", "N2"),
				},
			},
			{
				// a seek revives an old message with FRESH retention: it is part of the
				// backlog until that retention ends, however long ago it was published
				ID: "C13/revived-older-than-retention", Prop: "C13", Depth: d(tier, 5, 6), Drain: true,
				AlsoOwn: []string{"not-offered", "pull-skipped", "row-missing", "drain-stuck"},
				Cfg: model.Cfg{Topics: []string{"T0"}, Subs: []model.SubCfg{
					{Name: "S0", Topic: "T0", Retention: 40 * time.Minute},
				}},
				Prelude: []model.Op{pub1("T0", "", 0), pull("S0", 10), snap("S0", "N0"), ack("S0", "all"), tick("+30m")},
				Alphabet: []model.Op{
					seekT("S0", "before-all"), seekS("S0", "N0"),
					// a target that lies further back than the retention, but behind a revived message
					seekT("S0", "after-0"),
					tick("+30m"), tick("lease+"),
					pull("S0", 10), ack("S0", "all"), pub1("T0", "", 0),
					job("prune-expired-deliveries", 0, 100),
				},
			},
		}
	}

	// ---------------------------------------------------------------- C14
	histChecks["C14"] = func(tier string) []*hist.Scenario {
		return []*hist.Scenario{
			{
				ID: "C14/retention+ttl", Prop: "C14", Depth: d(tier, 6, 7), Drain: true,
				Cfg: model.Cfg{Topics: []string{"T0"}, Subs: []model.SubCfg{
					{Name: "S0", Topic: "T0", Retention: 40 * time.Second, TTL: 2 * time.Minute},
					{Name: "S1", Topic: "T0", Retention: 10 * time.Minute, TTL: time.Hour},
				}},
				Alphabet: []model.Op{
					pub1("T0", "", 0),
					pull("S0", 10), pull("S1", 10), ack("S0", "all"),
					seekT("S0", "before-all"),
					job("delete-expired-subscriptions", time.Hour, 100), job("prune-expired-deliveries", 0, 100),
					mkSub("S0"),
					tick("ret-"), tick("ret+"), tick("ttl-"), tick("ttl+"), tick("lease+"),
				},
			},
			{
				// the durations are changed on the live subscription: what Get reports
				// afterwards is what must be enforced (never expired before a full NEW TTL
				// without activity; messages published afterwards live for the NEW retention)
				ID: "C14/reconfigured", Prop: "C14", Depth: d(tier, 5, 6), Drain: true,
				Cfg: model.Cfg{Topics: []string{"T0"}, Subs: []model.SubCfg{
					{Name: "S0", Topic: "T0", Retention: 40 * time.Second, TTL: 2 * time.Minute},
					{Name: "S1", Topic: "T0", Retention: 10 * time.Minute, TTL: time.Hour},
				}},
				Alphabet: []model.Op{
					pub1("T0", "", 0),
					pull("S0", 10), pull("S1", 10),
					reconfig("S0", "ttl:1h"), reconfig("S0", "ttl:default"), reconfig("S1", "ttl:2min"),
					reconfig("S0", "ret:10min"), reconfig("S1", "ret:40s"),
					job("delete-expired-subscriptions", 0, 100),
					tick("ret-"), tick("ret+"), tick("ttl-"), tick("ttl+"),
				},
			},
			{
				// "... counted from publish (or from a seek that revived it)": the same
				// histories as C13/revived-older-than-retention, judged for C14
				ID: "C14/retention-counted-from-the-reviving-seek", Prop: "C14", Depth: d(tier, 5, 6), Drain: true,
				AlsoOwn: []string{"not-offered", "pull-skipped", "row-missing", "drain-stuck"},
				Cfg: model.Cfg{Topics: []string{"T0"}, Subs: []model.SubCfg{
					{Name: "S0", Topic: "T0", Retention: 40 * time.Minute},
				}},
				Prelude: []model.Op{pub1("T0", "", 0), pull("S0", 10), snap("S0", "N0"), ack("S0", "all"), tick("+30m")},
				Alphabet: []model.Op{
					seekT("S0", "before-all"), seekS("S0", "N0"),
					tick("+30m"), tick("ret-"), tick("ret+"),
					pull("S0", 10), ack("S0", "all"),
					job("prune-expired-deliveries", 0, 100),
				},
			},
			{
				// a Pull that the client abandons while the server waits is still a pull:
				// it restarts the idle clock by the TTL (not by anything else)
				ID: "C14/abandoned-pull", Prop: "C14", Depth: d(tier, 5, 6), Drain: true,
				Cfg: model.Cfg{Topics: []string{"T0"}, Subs: []model.SubCfg{
					{Name: "S0", Topic: "T0", Retention: 10 * time.Minute, TTL: time.Hour},
					{Name: "S1", Topic: "T0", Retention: time.Hour, TTL: 2 * time.Minute},
				}},
				Alphabet: []model.Op{
					pub1("T0", "", 0), pull("S0", 10), pullAbandon("S0"), pullAbandon("S1"),
					// ... and one the SERVER ends empty after its full wait: the idle clock
					// restarts when the pull ENDS
					pullW("S1", 10),
					// ... and a StreamingPull that gets nothing and is closed again
					stream("S1", "plain", ""),
					job("delete-expired-subscriptions", 0, 100),
					tick("ret+"), tick("ttl-"), tick("ttl+"),
				},
			},
			{
				// a long poll that is woken by changes that make nothing deliverable (a
				// publish to a subscription with a delivery delay): the idle clock restarts
				// when the pull ENDS, so the pull has to end - at its maximum wait counted
				// from its start, not from the last wake-up
				ID: "C14/woken-without-delivery", Prop: "C14", Depth: d(tier, 4, 5), Drain: true,
				AlsoOwn: []string{"pull-overstays"},
				Cfg: model.Cfg{Topics: []string{"T0"}, Subs: []model.SubCfg{
					{Name: "S0", Topic: "T0", Retention: 3 * time.Hour, Delay: time.Hour, TTL: 3 * time.Minute},
				}},
				Alphabet: []model.Op{
					pullWaitPub("S0", "T0", 30*time.Second), pullWaitPub("S0", "T0", 50*time.Second), pullW("S0", 10), pub1("T0", "", 0),
					job("delete-expired-subscriptions", 0, 100), tick("ttl-"), tick("ttl+"),
				},
			},
			{
				// blocking pulls that are still waiting when a lease lapses / the
				// retention ends / the delay ends
				ID: "C14/blocking-pulls", Prop: "C14", Depth: d(tier, 5, 6), Drain: true,
				Cfg: model.Cfg{Topics: []string{"T0"}, Subs: []model.SubCfg{
					{Name: "S0", Topic: "T0", Retention: 15 * time.Second},
					{Name: "S1", Topic: "T0", Retention: 100 * time.Second, Delay: 20 * time.Second, MinBackoff: 30 * time.Second},
				}},
				Alphabet: []model.Op{
					pub1("T0", "", 0),
					pull("S0", 10), pullW("S0", 10), pull("S1", 10), pullW("S1", 10),
					ack("S0", "oldest"), modack("S1", "all", 0), seekT("S0", "before-all"),
					tick("+5s"), tick("lease-"), tick("ret-"),
				},
			},
			{
				ID: "C14/delay", Prop: "C14", Depth: d(tier, 7, 9), Drain: true,
				Cfg: model.Cfg{Topics: []string{"T0", "TD"}, Subs: []model.SubCfg{
					{Name: "S0", Topic: "T0", Delay: 20 * time.Second, Retention: 5 * time.Minute, DLTopic: "TD", MaxAttempts: 1},
					{Name: "SD", Topic: "TD", Delay: 20 * time.Second},
				}},
				Alphabet: []model.Op{
					pub1("T0", "", 0),
					pull("S0", 10), pull("SD", 10), ack("S0", "oldest"), nack("S0", "all"),
					seekT("S0", "before-all"),
					tick("lease-"), tick("lease+"), tick("+5s"),
				},
			},
		}
	}
}

func init() {
	// ---------------------------------------------------------------- C15
	histChecks["C15"] = func(tier string) []*hist.Scenario {
		jobs := func(minAge time.Duration, maxDel int, names ...string) []model.Op {
			var out []model.Op
			for _, n := range names {
				out = append(out, job(n, minAge, maxDel))
			}
			return out
		}
		a := append([]model.Op{
			pub1("T0", "K1", 0), pub1("T0", "", 1),
			pull("S0", 1), pull("S0", 10), pull("S1", 10),
			ack("S0", "oldest"), ack("S0", "all"), ack("S1", "all"), nack("S0", "oldest"),
			seekT("S0", "before-all"), seekT("S0", "after-0"),
			tick("lease+"), tick("+1h"), tick("ret+"),
		}, jobs(0, 1, "prune-completed-deliveries", "prune-expired-deliveries", "prune-completed-messages")...)
		a = append(a, jobs(0, 100, "prune-completed-deliveries", "prune-expired-deliveries", "prune-completed-messages")...)
		// (S1's retention of 40 min is SHORTER than this age threshold: an age
		// threshold must never reach into the future of a live delivery)
		a = append(a, jobs(time.Hour, 100, "prune-completed-deliveries", "prune-expired-deliveries", "prune-completed-messages")...)
		b := append([]model.Op{
			pub1("T0", "", 0),
			pull("S0", 10), ack("S0", "all"), pull("SD", 10),
			nack("S0", "all"), sweep(),
			delSub("S0"), mkSub("S0"), delSub("SD"), delTopic("TD"), delTopic("T0"), mkTopic("T0"),
			snap("S0", "N0"), snap("SD", "N1"), seekS("S0", "N0"),
			tick("lease+"), tick("+1h"), tick("ttl+"),
		}, jobs(0, 100, model.JobNames...)...)
		b = append(b, jobs(time.Hour, 1, "prune-deleted-subscription-deliveries", "prune-deleted-subscriptions", "prune-deleted-topics")...)
		return []*hist.Scenario{
			{
				ID: "C15/deliveries+messages", Prop: "C15", Depth: d(tier, 5, 6), Drain: true, Converge: true, Metamorphic: true,
				Cfg: model.Cfg{Topics: []string{"T0"}, Subs: []model.SubCfg{
					{Name: "S0", Topic: "T0", Ordered: true, Retention: 3 * time.Hour},
					{Name: "S1", Topic: "T0", Filter: fX, Retention: 40 * time.Minute},
				}},
				Alphabet: a,
			},
			{
				ID: "C15/resources+deadletter", Prop: "C15", Depth: d(tier, 4, 5), Drain: true, Converge: true, Metamorphic: true,
				Cfg: model.Cfg{Topics: []string{"T0", "TD"}, Subs: []model.SubCfg{
					{Name: "S0", Topic: "T0", DLTopic: "TD", MaxAttempts: 1, TTL: 3 * time.Hour},
					{Name: "SD", Topic: "TD"},
				}},
				Alphabet: b,
			},
			{
				// a tick that FAILS (a deleted topic that nothing is attached to but that still
				// owns a message: the delete is refused by the messages' foreign key until
				// prune-completed-messages has run): the failure is the job's business,
				// clients must not notice anything
				ID: "C15/job-blocked-by-references", Prop: "C15", Depth: d(tier, 4, 5), Drain: true, Converge: true, Metamorphic: true,
				Cfg: model.Cfg{Topics: []string{"T0"}, Subs: []model.SubCfg{
					{Name: "S0", Topic: "T0"},
				}},
				Prelude: []model.Op{delTopic("T0"), mkTopic("T0"), pub1("T0", "", 0), delTopic("T0")},
				Alphabet: append([]model.Op{
					mkTopic("T0"), pub1("T0", "", 0), pull("S0", 10), delSub("S0"), mkSub("S0"), get("sub", "S0"),
				}, jobs(0, 100, "prune-deleted-topics", "prune-completed-messages", "prune-deleted-subscription-deliveries", "prune-deleted-subscriptions")...),
			},
			{
				// a name in use again while its deleted predecessor has not been reclaimed yet:
				// every request by name must see the live row only, reclaimed or not
				ID: "C15/reused-subscription-name", Prop: "C15", Depth: d(tier, 5, 6), Drain: true, Converge: true, Metamorphic: true, MetamorphicReverse: true,
				Cfg: model.Cfg{Topics: []string{"T0"}, Subs: []model.SubCfg{
					{Name: "S0", Topic: "T0"},
				}},
				Prelude: []model.Op{pub1("T0", "", 0), snap("S0", "N0"), delSub("S0"), mkSub("S0")},
				Alphabet: append([]model.Op{
					seekS("S0", "N0"), seekT("S0", "before-all"), pull("S0", 10), pub1("T0", "", 0), ack("S0", "all"), modack("S0", "all", 0),
					snap("S0", "N0"), delSub("S0"), mkSub("S0"), get("sub", "S0"),
				}, jobs(0, 100, "prune-deleted-subscription-deliveries", "prune-deleted-subscriptions", "prune-completed-deliveries", "prune-completed-messages")...),
			},
			{
				// a deleted dead-letter topic that nothing but the policy refers to
				ID: "C15/deadletter-topic-reclaimed", Prop: "C15", Depth: d(tier, 6, 7), Drain: true, Converge: true, Metamorphic: true,
				Cfg: model.Cfg{Topics: []string{"T0", "TD"}, Subs: []model.SubCfg{
					{Name: "S0", Topic: "T0", DLTopic: "TD", MaxAttempts: 1},
				}},
				Alphabet: []model.Op{
					pub1("T0", "", 0), pull("S0", 10), nack("S0", "all"), ack("S0", "all"),
					delTopic("TD"), get("sub", "S0"),
					job("prune-deleted-topics", 0, 100), job("prune-completed-deliveries", 0, 100), job("prune-completed-messages", 0, 100),
					tick("lease+"), sweep(),
				},
			},
		}
	}
}
