package checks

import (
	"os"

	"context"
	"fmt"
	"math"
	"sort"
	"strings"
	"testing"
	"testing/synctest"
	"time"
	"verif/mc/hist"
	"verif/mc/model"

	"google.golang.org/protobuf/proto"
	"google.golang.org/protobuf/types/known/durationpb"
	"google.golang.org/protobuf/types/known/fieldmaskpb"

	"go.6river.tech/mmmbbb/grpc/pubsubpb"
	"go.6river.tech/mmmbbb/services"

	"verif/mc/report"
	"verif/mc/world"
)

func init() {
	otherChecks["C17"] = runC17
	histExtra["C17"] = c17Enforced
}

// c17Enforced: "... and what is enforced".  The durations, the retry policy and
// the filter of a LIVE subscription are changed through UpdateSubscription in the
// middle of histories; from then on the reference model expects the behaviour of
// the NEW configuration (expiry only a full new TTL after the last activity,
// retention of later messages, back-off of later attempts, routing of later
// publishes).  Explored like the other history scenarios (E1).
func c17Enforced(tier string) []*hist.Scenario {
	return []*hist.Scenario{
		{
			ID: "C17/enforced-durations", Prop: "C17", Depth: d(tier, 5, 6), Drain: true,
			Cfg: model.Cfg{Topics: []string{"T0"}, Subs: []model.SubCfg{
				{Name: "S0", Topic: "T0", Retention: 40 * time.Second, TTL: 2 * time.Minute},
			}},
			Alphabet: []model.Op{
				pub1("T0", "", 0), pull("S0", 10),
				reconfig("S0", "ttl:1h"), reconfig("S0", "ttl:default"), reconfig("S0", "ttl:2min"),
				reconfig("S0", "ret:10min"), reconfig("S0", "ret:default"),
				job("delete-expired-subscriptions", 0, 100),
				tick("ret-"), tick("ret+"), tick("ttl-"), tick("ttl+"),
			},
		},
		{
			ID: "C17/enforced-retry-and-filter", Prop: "C17", Depth: d(tier, 5, 6), Drain: true,
			Cfg: model.Cfg{Topics: []string{"T0"}, Subs: []model.SubCfg{
				{Name: "S0", Topic: "T0", Filter: fX, MinBackoff: 30 * time.Second},
			}},
			Alphabet: []model.Op{
				pub1("T0", "", 0), pub1("T0", "", 1), pull("S0", 10), nack("S0", "all"),
				reconfig("S0", "retry:1s"), reconfig("S0", "retry:30s-max40s"), reconfig("S0", "retry:none"),
				reconfig("S0", "filter:none"), reconfig("S0", "filter:notx"),
				tick("lease-"), tick("lease+"),
			},
		},
	}
}

// subModel is the harness's own record of what a subscription's configuration
// must be (0 / "" / nil = unset, defaults applied on read).
type subModel struct {
	Name, Topic    string
	Labels         map[string]string
	Retention      time.Duration
	TTL            time.Duration
	Ordered        bool
	Filter         string
	MinB, MaxB     time.Duration
	HasMin, HasMax bool
	DLTopic        string
	DLAttempts     int32
	Push           string
}

const (
	defRetention = 7 * 24 * time.Hour
	defTTL       = 30 * 24 * time.Hour
)

func (m subModel) diff(s *pubsubpb.Subscription) []string {
	var out []string
	add := func(f string, got, want any) {
		if fmt.Sprint(got) != fmt.Sprint(want) {
			out = append(out, fmt.Sprintf("%s: got %v want %v", f, got, want))
		}
	}
	if s == nil {
		return []string{"nil subscription"}
	}
	add("name", s.Name, m.Name)
	add("topic", s.Topic, m.Topic)
	if len(s.Labels) != len(m.Labels) {
		add("labels", s.Labels, m.Labels)
	} else {
		for k, v := range m.Labels {
			if w, ok := s.Labels[k]; !ok || w != v {
				add("labels", s.Labels, m.Labels)
				break
			}
		}
	}
	ret := m.Retention
	if ret == 0 {
		ret = defRetention
	}
	add("message_retention_duration", s.MessageRetentionDuration.AsDuration(), ret)
	ttl := m.TTL
	if ttl == 0 {
		ttl = defTTL
	}
	add("expiration_policy.ttl", s.GetExpirationPolicy().GetTtl().AsDuration(), ttl)
	add("enable_message_ordering", s.EnableMessageOrdering, m.Ordered)
	add("filter", s.Filter, m.Filter)
	add("retry_policy.minimum_backoff", s.GetRetryPolicy().GetMinimumBackoff().AsDuration(), m.MinB)
	add("retry_policy.maximum_backoff", s.GetRetryPolicy().GetMaximumBackoff().AsDuration(), m.MaxB)
	add("dead_letter_policy.dead_letter_topic", s.GetDeadLetterPolicy().GetDeadLetterTopic(), m.DLTopic)
	add("dead_letter_policy.max_delivery_attempts", s.GetDeadLetterPolicy().GetMaxDeliveryAttempts(), m.DLAttempts)
	add("push_config.push_endpoint", s.GetPushConfig().GetPushEndpoint(), m.Push)
	return out
}

func dur(d time.Duration) *durationpb.Duration {
	if d == 0 {
		return nil
	}
	return durationpb.New(d)
}

func runC17(t *testing.T, tier string) int {
	t0 := time.Now()
	sink := &violSink{}
	cov := map[string]any{}
	var samples []any

	// ------------------------------------------------------------ codec
	grid := durationGrid(tier)
	codecN := 0
	for _, d := range grid {
		v, err := services.VerifIntervalValue(d)
		if err != nil {
			sink.add(report.Viol{Property: "C17", Check: "C17/codec", Rule: "interval-value", Text: fmt.Sprintf("Value(%v) failed: %v", d, err), Trace: []string{d.String()}})
			continue
		}
		back, err := services.VerifIntervalScan(v)
		codecN++
		if err != nil || back != d {
			sink.add(report.Viol{Property: "C17", Check: "C17/codec", Rule: "interval-roundtrip", Text: fmt.Sprintf("duration %v is stored as %v and read back as %v (%v)", d, v, back, err), Trace: []string{d.String()}})
		}
	}
	pgN := 0
	for _, c := range pgCases(tier) {
		got, err := services.VerifParsePGInterval(c.text)
		pgN++
		if err != nil || got != c.want {
			sink.add(report.Viol{Property: "C17", Check: "C17/pg-interval", Rule: "pg-interval-parse", Text: fmt.Sprintf("PostgreSQL interval %q parsed as %v (%v), means %v", c.text, got, err, c.want), Trace: []string{c.text}})
		}
	}
	cov["codec_durations"] = codecN
	cov["pg_interval_strings"] = pgN

	// ------------------------------------------------------------ create / get / list, updates
	var creates, updates, gets int
	synctest.Test(t, func(t *testing.T) {
		w, err := world.Open()
		if err != nil {
			t.Fatal(err)
		}
		defer w.Close()
		w.SeqTick = false
		w.Sub = safeSub{w.Sub}
		ctx := context.Background()
		topics := []string{"projects/p/topics/t", "projects/p/topics/dl", "projects/p/topics/dl2"}
		for _, tn := range topics {
			if _, err := w.Pub.CreateTopic(ctx, &pubsubpb.Topic{Name: tn, Labels: map[string]string{"k": tn}}); err != nil {
				t.Fatal(err)
			}
		}
		// topic labels round trip + UpdateTopic
		for i, lab := range []map[string]string{nil, {"a": "1"}, {"a": "1", "b": "", "c": "é"}} {
			tn := fmt.Sprintf("projects/p/topics/lab%d", i)
			if _, err := w.Pub.CreateTopic(ctx, &pubsubpb.Topic{Name: tn, Labels: lab}); err != nil {
				t.Fatal(err)
			}
			got, err := w.Pub.GetTopic(ctx, &pubsubpb.GetTopicRequest{Topic: tn})
			if err != nil || fmt.Sprint(got.Labels) != fmt.Sprint(lab) && !(len(got.Labels) == 0 && len(lab) == 0) {
				sink.add(report.Viol{Property: "C17", Check: "C17/topic", Rule: "topic-roundtrip", Text: fmt.Sprintf("topic labels %v read back as %v (%v)", lab, got.GetLabels(), err), Trace: []string{tn}})
			}
			for _, nl := range []map[string]string{{"z": "9"}, nil} {
				up, err := w.Pub.UpdateTopic(ctx, &pubsubpb.UpdateTopicRequest{Topic: &pubsubpb.Topic{Name: tn, Labels: nl}, UpdateMask: &fieldmaskpb.FieldMask{Paths: []string{"labels"}}})
				got, err2 := w.Pub.GetTopic(ctx, &pubsubpb.GetTopicRequest{Topic: tn})
				if err != nil || err2 != nil || !(len(got.Labels) == len(nl) && (len(nl) == 0 || got.Labels["z"] == "9")) {
					sink.add(report.Viol{Property: "C17", Check: "C17/topic", Rule: "topic-update", Text: fmt.Sprintf("UpdateTopic(labels=%v) -> %v %v; Get -> %v %v", nl, up, err, got, err2), Trace: []string{tn}})
				}
			}
		}

		labels := []map[string]string{nil, {"a": "1"}, {"a": "1", "b": "", "c": "é"}}
		rets := []time.Duration{0, 1, 1500 * time.Millisecond, 10 * time.Minute, 24 * time.Hour, 87600 * time.Hour}
		ttls := []time.Duration{0, 1, 24 * time.Hour, 87600 * time.Hour}
		filters := []string{"", "attributes:x", `attributes."a b" = "v" AND NOT hasPrefix(attributes.k,"p")`}
		type rp struct{ min, max time.Duration }
		// absent, each bound alone, both, both EQUAL (constant backoff), adjacent (max = min + 1ns), min above the default max
		retries := []rp{{0, 0}, {time.Second, 0}, {0, 30 * time.Second}, {1500 * time.Millisecond, time.Hour}, {10 * time.Second, 10 * time.Second}, {10 * time.Second, 10*time.Second + 1}, {20 * time.Minute, 0}}
		type dlp struct {
			on bool
			n  int32
		}
		dls := []dlp{{false, 0}, {true, 0}, {true, 1}, {true, 7}}
		pushes := []string{"", "http://127.0.0.1:1/push"}
		n := 0
		for li, lab := range labels {
			for _, ret := range rets {
				for _, ttl := range ttls {
					for _, ord := range []bool{false, true} {
						for _, fl := range filters {
							for _, r := range retries {
								for _, dl := range dls {
									for _, push := range pushes {
										n++
										if tier != "thorough" && (n+li)%3 != 0 && !(ret == 1 || ttl == 1) {
											continue // quick tier: a third of the product, but every ns-valued case
										}
										name := fmt.Sprintf("projects/p/subscriptions/c%d", n)
										req := &pubsubpb.Subscription{Name: name, Topic: topics[0], Labels: lab, MessageRetentionDuration: dur(ret), EnableMessageOrdering: ord, Filter: fl}
										m := subModel{Name: name, Topic: topics[0], Labels: lab, Retention: ret, TTL: ttl, Ordered: ord, Filter: fl, MinB: r.min, MaxB: r.max, Push: push}
										if ttl != 0 {
											req.ExpirationPolicy = &pubsubpb.ExpirationPolicy{Ttl: dur(ttl)}
										}
										if r.min != 0 || r.max != 0 {
											req.RetryPolicy = &pubsubpb.RetryPolicy{MinimumBackoff: dur(r.min), MaximumBackoff: dur(r.max)}
										}
										if dl.on {
											req.DeadLetterPolicy = &pubsubpb.DeadLetterPolicy{DeadLetterTopic: topics[1], MaxDeliveryAttempts: dl.n}
											m.DLTopic = topics[1]
											m.DLAttempts = dl.n
											if dl.n == 0 {
												m.DLAttempts = 5
											}
										}
										if push != "" {
											req.PushConfig = &pubsubpb.PushConfig{PushEndpoint: push}
										}
										created, err := w.Sub.CreateSubscription(ctx, req)
										creates++
										if err != nil {
											sink.add(report.Viol{Property: "C17", Check: "C17/create", Rule: "create-rejected", Text: fmt.Sprintf("CreateSubscription(%v) failed: %v", req, err), Trace: []string{req.String()}})
											continue
										}
										if d := m.diff(created); len(d) > 0 {
											sink.add(report.Viol{Property: "C17", Check: "C17/create", Rule: "create-response", Text: fmt.Sprintf("CreateSubscription response differs from request: %v", d), Trace: []string{req.String()}})
										}
										got, err := w.Sub.GetSubscription(ctx, &pubsubpb.GetSubscriptionRequest{Subscription: name})
										gets++
										if err != nil {
											sink.add(report.Viol{Property: "C17", Check: "C17/create", Rule: "get-failed", Text: err.Error(), Trace: []string{req.String()}})
											continue
										}
										if d := m.diff(got); len(d) > 0 {
											sink.add(report.Viol{Property: "C17", Check: "C17/create", Rule: "get-roundtrip", Text: fmt.Sprintf("GetSubscription after Create differs: %v", d), Trace: []string{req.String()}})
										}
										if len(samples) < 3 {
											samples = append(samples, map[string]any{"create": req.String(), "get": got.String()})
										}
										// List must show the same element; keep the table small
										if n%97 == 0 {
											found := false
											token := ""
											for {
												lr, err := w.Sub.ListSubscriptions(ctx, &pubsubpb.ListSubscriptionsRequest{Project: "projects/p", PageSize: 7, PageToken: token})
												if err != nil {
													break
												}
												for _, e := range lr.Subscriptions {
													if e.Name == name {
														found = true
														if !proto.Equal(e, got) {
															sink.add(report.Viol{Property: "C17", Check: "C17/create", Rule: "list-roundtrip", Text: fmt.Sprintf("ListSubscriptions element %v differs from GetSubscription %v", e, got), Trace: []string{req.String()}})
														}
													}
												}
												if lr.NextPageToken == "" {
													break
												}
												token = lr.NextPageToken
											}
											if !found {
												sink.add(report.Viol{Property: "C17", Check: "C17/create", Rule: "list-roundtrip", Text: "created subscription missing from ListSubscriptions", Trace: []string{req.String()}})
											}
										}
										if _, err := w.Sub.DeleteSubscription(ctx, &pubsubpb.DeleteSubscriptionRequest{Subscription: name}); err != nil {
											t.Fatal(err)
										}
									}
								}
							}
						}
					}
				}
			}
		}

		// ------------------------------------------- topics deleted under a subscription
		// the configuration that was set stays what Get / List report when the
		// subscription's topic or its dead-letter topic is deleted afterwards (only
		// the name of the deleted topic itself may be replaced by the placeholder)
		for round, which := range []string{"source", "dead-letter", "both"} {
			src := fmt.Sprintf("projects/p/topics/del-src-%d", round)
			dl := fmt.Sprintf("projects/p/topics/del-dl-%d", round)
			name := fmt.Sprintf("projects/p/subscriptions/del-%d", round)
			for _, tn := range []string{src, dl} {
				if _, err := w.Pub.CreateTopic(ctx, &pubsubpb.Topic{Name: tn}); err != nil {
					t.Fatal(err)
				}
			}
			req := &pubsubpb.Subscription{Name: name, Topic: src, Labels: map[string]string{"a": "b"}, Filter: "attributes:x",
				DeadLetterPolicy: &pubsubpb.DeadLetterPolicy{DeadLetterTopic: dl, MaxDeliveryAttempts: 7},
				RetryPolicy:      &pubsubpb.RetryPolicy{MinimumBackoff: durationpb.New(3 * time.Second), MaximumBackoff: durationpb.New(40 * time.Second)},
				MessageRetentionDuration: durationpb.New(20 * time.Minute), ExpirationPolicy: &pubsubpb.ExpirationPolicy{Ttl: durationpb.New(36 * time.Hour)}}
			if _, err := w.Sub.CreateSubscription(ctx, req); err != nil {
				t.Fatal(err)
			}
			creates++
			before, err := w.Sub.GetSubscription(ctx, &pubsubpb.GetSubscriptionRequest{Subscription: name})
			if err != nil {
				t.Fatal(err)
			}
			if which != "dead-letter" {
				if _, err := w.Pub.DeleteTopic(ctx, &pubsubpb.DeleteTopicRequest{Topic: src}); err != nil {
					t.Fatal(err)
				}
			}
			if which != "source" {
				if _, err := w.Pub.DeleteTopic(ctx, &pubsubpb.DeleteTopicRequest{Topic: dl}); err != nil {
					t.Fatal(err)
				}
			}
			reads := map[string]*pubsubpb.Subscription{}
			if got, err := w.Sub.GetSubscription(ctx, &pubsubpb.GetSubscriptionRequest{Subscription: name}); err != nil {
				sink.add(report.Viol{Property: "C17", Check: "C17/deleted-topics", Rule: "get-roundtrip", Text: fmt.Sprintf("GetSubscription after deleting the %s topic failed: %v", which, err), Trace: []string{which}})
			} else {
				reads["Get"] = got
			}
			gets++
			if lr, err := w.Sub.ListSubscriptions(ctx, &pubsubpb.ListSubscriptionsRequest{Project: "projects/p", PageSize: 1000}); err == nil {
				for _, e := range lr.Subscriptions {
					if e.Name == name {
						reads["List"] = e
					}
				}
				if reads["List"] == nil {
					sink.add(report.Viol{Property: "C17", Check: "C17/deleted-topics", Rule: "list-roundtrip", Text: fmt.Sprintf("a live subscription is missing from ListSubscriptions after the %s topic was deleted", which), Trace: []string{which}})
				}
			}
			for how, got := range reads {
				want := proto.Clone(before).(*pubsubpb.Subscription)
				// the deleted topic's own name may be shown as the placeholder
				if which != "dead-letter" && got.Topic == "_deleted-topic_" {
					want.Topic = got.Topic
				}
				if which != "source" && got.DeadLetterPolicy != nil && got.DeadLetterPolicy.DeadLetterTopic == "_deleted-topic_" {
					want.DeadLetterPolicy.DeadLetterTopic = "_deleted-topic_"
				}
				if !proto.Equal(got, want) {
					sink.add(report.Viol{Property: "C17", Check: "C17/deleted-topics", Rule: "get-roundtrip", Text: fmt.Sprintf("%s after deleting the %s topic: the configuration changed although nobody updated it:\n got  %v\n want %v", how, which, got, want), Trace: []string{which, how}})
				}
			}
			// ... and setting the dead-letter policy again - while its topic is deleted, and
			// after a topic of that NAME was created again: whenever the update is
			// accepted, Get and List report the topic the update named
			if which != "source" {
				for step, recreate := range []bool{false, true} {
					if recreate {
						if _, err := w.Pub.CreateTopic(ctx, &pubsubpb.Topic{Name: dl}); err != nil {
							t.Fatal(err)
						}
					}
					resp, uerr := w.Sub.UpdateSubscription(ctx, &pubsubpb.UpdateSubscriptionRequest{
						Subscription: &pubsubpb.Subscription{Name: name, DeadLetterPolicy: &pubsubpb.DeadLetterPolicy{DeadLetterTopic: dl, MaxDeliveryAttempts: 9}},
						UpdateMask:   &fieldmaskpb.FieldMask{Paths: []string{"dead_letter_policy"}}})
					updates++
					if uerr != nil {
						if recreate {
							sink.add(report.Viol{Property: "C17", Check: "C17/deleted-topics", Rule: "update-response", Text: fmt.Sprintf("UpdateSubscription(dead_letter_policy -> a live topic whose name a deleted topic had before) failed: %v", uerr), Trace: []string{which, fmt.Sprint(step)}})
						}
						continue
					}
					shown := map[string]string{"Update response": ""}
					if resp.GetDeadLetterPolicy() != nil {
						shown["Update response"] = fmt.Sprintf("%s/%d", resp.DeadLetterPolicy.DeadLetterTopic, resp.DeadLetterPolicy.MaxDeliveryAttempts)
					}
					if got, err := w.Sub.GetSubscription(ctx, &pubsubpb.GetSubscriptionRequest{Subscription: name}); err == nil && got.DeadLetterPolicy != nil {
						shown["Get"] = fmt.Sprintf("%s/%d", got.DeadLetterPolicy.DeadLetterTopic, got.DeadLetterPolicy.MaxDeliveryAttempts)
					} else {
						shown["Get"] = fmt.Sprintf("no policy (%v)", err)
					}
					gets++
					if lr, err := w.Sub.ListSubscriptions(ctx, &pubsubpb.ListSubscriptionsRequest{Project: "projects/p", PageSize: 1000}); err == nil {
						for _, e := range lr.Subscriptions {
							if e.Name == name && e.DeadLetterPolicy != nil {
								shown["List"] = fmt.Sprintf("%s/%d", e.DeadLetterPolicy.DeadLetterTopic, e.DeadLetterPolicy.MaxDeliveryAttempts)
							}
						}
					}
					want := fmt.Sprintf("%s/%d", dl, 9)
					for how, v := range shown {
						if v != want {
							sink.add(report.Viol{Property: "C17", Check: "C17/deleted-topics", Rule: "get-roundtrip", Text: fmt.Sprintf("an accepted UpdateSubscription set the dead-letter policy to %s (topic deleted before: %v, created again: %v); %s shows %s", want, true, recreate, how, v), Trace: []string{which, fmt.Sprint(step), how}})
						}
					}
				}
			}
			w.Sub.DeleteSubscription(ctx, &pubsubpb.DeleteSubscriptionRequest{Subscription: name})
		}

		// ---------------------------------------------------------- update masks
		paths := []string{"labels", "expiration_policy", "message_retention_duration", "enable_message_ordering", "retry_policy", "push_config", "filter", "dead_letter_policy"}
		type upd struct {
			mask    int
			variant int
		}
		apply := func(m subModel, u upd) (subModel, *pubsubpb.UpdateSubscriptionRequest) {
			s := &pubsubpb.Subscription{Name: m.Name}
			// the request carries a value for EVERY field (so that a handler that
			// ignores the mask is caught); only masked ones may take effect
			var reqLabels map[string]string
			var ttl, ret, min, max time.Duration
			var ord bool
			var push, fl, dlt string
			var dln int32
			switch u.variant {
			case 0:
				reqLabels = map[string]string{"u": "1", "v": ""}
				ttl, ret = 36*time.Hour+1, 90*time.Minute+time.Duration(1)
				ord = true
				min, max = 2*time.Second+500*time.Millisecond, 0
				push = "http://127.0.0.1:2/other"
				fl = `attributes.k != "w"`
				dlt, dln = topics[2], 3
			case 1:
				// clearing / zero values
			case 2:
				reqLabels = map[string]string{}
				ttl, ret = time.Nanosecond, 7*24*time.Hour+time.Second
				ord = false
				min, max = 0, 45*time.Second
				push = ""
				fl = "attributes:z"
				dlt, dln = topics[1], 0
			}
			s.Labels = reqLabels
			if ttl != 0 {
				s.ExpirationPolicy = &pubsubpb.ExpirationPolicy{Ttl: dur(ttl)}
			}
			s.MessageRetentionDuration = dur(ret)
			s.EnableMessageOrdering = ord
			if min != 0 || max != 0 {
				s.RetryPolicy = &pubsubpb.RetryPolicy{MinimumBackoff: dur(min), MaximumBackoff: dur(max)}
			}
			if push != "" {
				s.PushConfig = &pubsubpb.PushConfig{PushEndpoint: push}
			}
			s.Filter = fl
			if dlt != "" {
				s.DeadLetterPolicy = &pubsubpb.DeadLetterPolicy{DeadLetterTopic: dlt, MaxDeliveryAttempts: dln}
			}
			var mask []string
			for i, p := range paths {
				if u.mask&(1<<i) == 0 {
					continue
				}
				mask = append(mask, p)
				switch p {
				case "labels":
					m.Labels = reqLabels
				case "expiration_policy":
					m.TTL = ttl
				case "message_retention_duration":
					m.Retention = ret
				case "enable_message_ordering":
					m.Ordered = ord
				case "retry_policy":
					m.MinB, m.MaxB = min, max
				case "push_config":
					m.Push = push
				case "filter":
					m.Filter = fl
				case "dead_letter_policy":
					m.DLTopic, m.DLAttempts = dlt, dln
					if dlt != "" && dln == 0 {
						m.DLAttempts = 5
					}
					if dlt == "" {
						m.DLAttempts = 0
					}
				}
			}
			return m, &pubsubpb.UpdateSubscriptionRequest{Subscription: s, UpdateMask: &fieldmaskpb.FieldMask{Paths: mask}}
		}
		var firsts, seconds []upd
		for mask := 0; mask < 256; mask++ {
			for v := 0; v < 3; v++ {
				firsts = append(firsts, upd{mask, v})
			}
		}
		for i := range paths {
			for v := 0; v < 3; v++ {
				seconds = append(seconds, upd{1 << i, v})
			}
		}
		for v := 0; v < 3; v++ {
			seconds = append(seconds, upd{255, v})
		}
		if tier == "thorough" {
			seconds = firsts
		}
		bases := []subModel{
			{Topic: topics[0]},
			{Topic: topics[0], Labels: map[string]string{"a": "1"}, Retention: time.Hour, TTL: 48 * time.Hour, Ordered: true, Filter: "attributes:x", MinB: time.Second, MaxB: time.Minute, DLTopic: topics[1], DLAttempts: 9, Push: "http://127.0.0.1:1/push"},
		}
		seq := 0
		for bi, base := range bases {
			for _, u1 := range firsts {
				// one subscription per first update; second updates applied from a
				// re-created copy only when they would otherwise interact (cheap way:
				// recreate for every pair in thorough, share the first update in quick)
				for _, u2 := range seconds {
					if tier != "thorough" && (u1.mask*3+u1.variant+u2.mask+u2.variant+bi)%4 != 0 {
						continue
					}
					seq++
					name := fmt.Sprintf("projects/p/subscriptions/u%d", seq)
					m := base
					m.Name = name
					req := &pubsubpb.Subscription{Name: name, Topic: m.Topic, Labels: m.Labels, MessageRetentionDuration: dur(m.Retention), EnableMessageOrdering: m.Ordered, Filter: m.Filter}
					if m.TTL != 0 {
						req.ExpirationPolicy = &pubsubpb.ExpirationPolicy{Ttl: dur(m.TTL)}
					}
					if m.MinB != 0 || m.MaxB != 0 {
						req.RetryPolicy = &pubsubpb.RetryPolicy{MinimumBackoff: dur(m.MinB), MaximumBackoff: dur(m.MaxB)}
					}
					if m.DLTopic != "" {
						req.DeadLetterPolicy = &pubsubpb.DeadLetterPolicy{DeadLetterTopic: m.DLTopic, MaxDeliveryAttempts: m.DLAttempts}
					}
					if m.Push != "" {
						req.PushConfig = &pubsubpb.PushConfig{PushEndpoint: m.Push}
					}
					if _, err := w.Sub.CreateSubscription(ctx, req); err != nil {
						t.Fatal(err)
					}
					trace := []string{req.String()}
					for _, u := range []upd{u1, u2} {
						var ureq *pubsubpb.UpdateSubscriptionRequest
						m, ureq = apply(m, u)
						trace = append(trace, ureq.String())
						resp, err := w.Sub.UpdateSubscription(ctx, ureq)
						updates++
						if err != nil {
							sink.add(report.Viol{Property: "C17", Check: "C17/update", Rule: "update-rejected", Text: fmt.Sprintf("UpdateSubscription(mask %v) failed: %v", ureq.UpdateMask.Paths, err), Trace: trace})
							break
						}
						if resp != nil {
							if d := m.diff(resp); len(d) > 0 {
								sink.add(report.Viol{Property: "C17", Check: "C17/update", Rule: "update-response", Text: fmt.Sprintf("UpdateSubscription(mask %v) response differs from the expected configuration: %v", ureq.UpdateMask.Paths, d), Trace: trace})
							}
						}
						got, err := w.Sub.GetSubscription(ctx, &pubsubpb.GetSubscriptionRequest{Subscription: name})
						gets++
						if err != nil {
							sink.add(report.Viol{Property: "C17", Check: "C17/update", Rule: "get-failed", Text: err.Error(), Trace: trace})
							break
						}
						if d := m.diff(got); len(d) > 0 {
							sink.add(report.Viol{Property: "C17", Check: "C17/update", Rule: "update-locality", Text: fmt.Sprintf("after UpdateSubscription(mask %v) GetSubscription differs from 'exactly the masked fields changed': %v", ureq.UpdateMask.Paths, d), Trace: trace})
							break
						}
					}
					if _, err := w.Sub.DeleteSubscription(ctx, &pubsubpb.DeleteSubscriptionRequest{Subscription: name}); err != nil {
						t.Fatal(err)
					}
					if seq%2000 == 0 {
						// keep the tables small: physically remove what was soft-deleted
						w.DB.Exec("DELETE FROM subscriptions WHERE deleted_at IS NOT NULL")
					}
				}
			}
		}
	})
	if len(samples) == 0 {
		samples = append(samples, "none")
	}
	cov["creates"] = creates
	cov["updates"] = updates
	cov["gets"] = gets
	cov["evaluations"] = codecN + pgN + creates + updates
	cov["distinct_nontrivial"] = creates + updates
	cov["rule"] = "cross product of per-field configuration values through Create->Get->List; pairs (thorough: all pairs) of UpdateSubscription calls over all 2^8 mask subsets x 3 value variants from 2 base configurations, each followed by Get and compared with 'exactly the masked fields changed'; duration codec over a structured grid; PostgreSQL interval strings against a reference reading"
	cov["samples"] = samples
	cov["exhaustive"] = true
	ev := report.Evidence{PropertyID: "C17", Tier: tier, Seed: report.Seed(), Level: "exploration", Coverage: cov,
		Assumptions: []string{"SQLite backend (durations stored as Go duration text); PostgreSQL's own rendering is represented by generated strings in its documented 'postgres' IntervalStyle", "absent and zero-valued optional durations are compared as equal"}}
	sort.Slice(sink.list, func(i, j int) bool {
		return len(strings.Join(sink.list[i].Trace, "")) < len(strings.Join(sink.list[j].Trace, ""))
	})
	if os.Getenv("VERIF_NO_HIST") == "" {
		hcov, hviol, _, rc := histPart(t, "C17", tier, c17Enforced(tier), t0)
		if rc != 0 {
			return rc
		}
		cov["enforced"] = hcov
		cov["enforced_explanation"] = "explicit-state BFS over histories in which UpdateSubscription changes TTL / retention / retry policy / filter of a live subscription; the reference model then demands the behaviour of the new configuration"
		if ex, _ := hcov["exhaustive"].(bool); !ex {
			cov["exhaustive"] = false
		}
		sink.list = append(sink.list, hviol...)
	}
	return report.Finish(ev, sink.list, t0)
}

func durationGrid(tier string) []time.Duration {
	comps := [][]time.Duration{
		{0, time.Hour, 23 * time.Hour, 87600 * time.Hour, 2562047 * time.Hour},
		{0, time.Minute, 59 * time.Minute},
		{0, time.Second, 59 * time.Second},
		{0, time.Millisecond, 999 * time.Millisecond},
		{0, time.Microsecond, 999 * time.Microsecond},
		{0, 1, 999},
	}
	var out []time.Duration
	var rec func(i int, acc time.Duration)
	rec = func(i int, acc time.Duration) {
		if i == len(comps) {
			out = append(out, acc)
			if acc != 0 {
				out = append(out, -acc)
			}
			return
		}
		for _, c := range comps[i] {
			if acc > 0 && c > math.MaxInt64-acc {
				continue
			}
			rec(i+1, acc+c)
		}
	}
	rec(0, 0)
	out = append(out, math.MaxInt64, math.MinInt64+1)
	return out
}

type pgCase struct {
	text string
	want time.Duration
}

// pgCases renders intervals the way PostgreSQL's default IntervalStyle
// ('postgres') prints them: "[Y year[s] ][M mon[s] ][D day[s] ][-]HH:MM:SS[.ffffff]",
// a sign in front of the time part applies to hours, minutes and seconds alike.
func pgCases(tier string) []pgCase {
	var out []pgCase
	plural := func(n int, unit string) string {
		if n == 1 || n == -1 {
			return fmt.Sprintf("%d %s ", n, unit)
		}
		return fmt.Sprintf("%d %ss ", n, unit)
	}
	years := []int{0, 1, 2}
	mons := []int{0, 1, 11}
	days := []int{0, 1, 29, -3}
	hs := []int{0, 1, 23, 100}
	ms := []int{0, 5, 59}
	ss := []int{0, 6, 59}
	fracs := []string{"", "5", "007008", "000001"}
	for _, y := range years {
		for _, mo := range mons {
			for _, d := range days {
				for _, h := range hs {
					for _, m := range ms {
						for _, s := range ss {
							for _, f := range fracs {
								for _, neg := range []bool{false, true} {
									tod := time.Duration(h)*time.Hour + time.Duration(m)*time.Minute + time.Duration(s)*time.Second
									if f != "" {
										var v int64
										fmt.Sscanf(f, "%d", &v)
										scale := time.Second
										for range f {
											scale /= 10
										}
										tod += time.Duration(v) * scale
									}
									if neg && tod == 0 {
										continue
									}
									var b strings.Builder
									if y != 0 {
										b.WriteString(plural(y, "year"))
									}
									if mo != 0 {
										b.WriteString(plural(mo, "mon"))
									}
									if d != 0 {
										b.WriteString(plural(d, "day"))
									}
									if neg {
										b.WriteByte('-')
									}
									fmt.Fprintf(&b, "%02d:%02d:%02d", h, m, s)
									if f != "" {
										b.WriteString("." + f)
									}
									want := time.Duration(y)*365*24*time.Hour + time.Duration(mo)*30*24*time.Hour + time.Duration(d)*24*time.Hour
									if neg {
										want -= tod
									} else {
										want += tod
									}
									out = append(out, pgCase{b.String(), want})
								}
							}
						}
					}
				}
			}
		}
	}
	return out
}

// safeSub turns a panic inside an in-process handler into an error: for this
// check a panicking request is a rejected request, not a harness crash.
type safeSub struct{ pubsubpb.SubscriberServer }

func guard(err *error) {
	if p := recover(); p != nil {
		*err = fmt.Errorf("handler panicked: %v", p)
	}
}

func (s safeSub) CreateSubscription(ctx context.Context, r *pubsubpb.Subscription) (resp *pubsubpb.Subscription, err error) {
	defer guard(&err)
	return s.SubscriberServer.CreateSubscription(ctx, r)
}
func (s safeSub) GetSubscription(ctx context.Context, r *pubsubpb.GetSubscriptionRequest) (resp *pubsubpb.Subscription, err error) {
	defer guard(&err)
	return s.SubscriberServer.GetSubscription(ctx, r)
}
func (s safeSub) UpdateSubscription(ctx context.Context, r *pubsubpb.UpdateSubscriptionRequest) (resp *pubsubpb.Subscription, err error) {
	defer guard(&err)
	return s.SubscriberServer.UpdateSubscription(ctx, r)
}
func (s safeSub) ListSubscriptions(ctx context.Context, r *pubsubpb.ListSubscriptionsRequest) (resp *pubsubpb.ListSubscriptionsResponse, err error) {
	defer guard(&err)
	return s.SubscriberServer.ListSubscriptions(ctx, r)
}
