package checks

import (
	"context"
	"encoding/json"
	"fmt"
	"io"
	"os"
	"os/exec"
	"path/filepath"
	"runtime"
	"sort"
	"strconv"
	"strings"
	"testing"
	"testing/synctest"
	"time"

	"verif/mc/hist"
	"verif/mc/model"
	"verif/mc/report"
)

// histChecks: property id -> scenarios per tier (E1 HistoryMC).
var histChecks = map[string]func(tier string) []*hist.Scenario{}

// otherChecks: property id -> self-contained check returning an exit code.
var otherChecks = map[string]func(t *testing.T, tier string) int{}

func nWorkers() int {
	if s := os.Getenv("VERIF_WORKERS"); s != "" {
		if n, err := strconv.Atoi(s); err == nil && n > 0 {
			return n
		}
	}
	n := runtime.NumCPU()
	if n > 16 {
		n = 16
	}
	return n
}

func budget(tier string) time.Duration {
	if s := os.Getenv("VERIF_BUDGET"); s != "" {
		if d, err := time.ParseDuration(s); err == nil {
			return d
		}
	}
	// (far above what the scenarios need on an idle machine - about 2 min quick,
	// 25 min thorough for the largest check: a budget that is reached makes the
	// coverage depend on the machine's load, later scenarios of the check are then
	// skipped and the run says exhaustive:false; it is only there to stop a
	// run-away exploration)
	if tier == "thorough" {
		return 100 * time.Minute
	}
	return 15 * time.Minute
}

// schedBudget: wall-clock cap of one scheduler layer (E2).  It is far above what
// the layers need (a cut exploration is load-dependent coverage): it only stops
// a run-away exploration, which is then reported as exhaustive:false.
func schedBudget(tier string) time.Duration {
	if s := os.Getenv("VERIF_BUDGET"); s != "" {
		if d, err := time.ParseDuration(s); err == nil {
			return d
		}
	}
	if tier == "thorough" {
		return 2 * time.Hour
	}
	return 20 * time.Minute
}

func TestCheck(t *testing.T) {
	id := os.Getenv("VERIF_CHECK")
	if id == "" {
		t.Skip("VERIF_CHECK not set")
	}
	tier := report.Tier()
	if os.Getenv("VERIF_WORKER") == "1" {
		mk := histChecks[id]
		if mk == nil {
			mk = histExtra[id]
		}
		if mk == nil {
			t.Fatalf("no history check %s", id)
		}
		synctest.Test(t, func(t *testing.T) {
			if err := hist.ServeWorker(mk(tier), os.Stdin, os.Stdout); err != nil {
				fmt.Fprintln(os.Stderr, "worker:", err)
				os.Exit(3)
			}
		})
		return
	}
	if os.Getenv("VERIF_CHILD") == "" && os.Getenv("VERIF_REPLAY") == "" && os.Getenv("VERIF_PATH") == "" && !isInternalWorker() {
		os.Exit(runIsolated(id, tier))
	}
	if f := os.Getenv("VERIF_REPLAY"); f != "" {
		os.Exit(replay(t, id, tier, f))
	}
	if p := os.Getenv("VERIF_PATH"); p != "" {
		// ad-hoc: VERIF_SCEN=<scenario id> VERIF_PATH='op;op;...' (debugging aid)
		v := report.Viol{Property: id, Check: os.Getenv("VERIF_SCEN"), Trace: strings.Split(p, ";")}
		b, _ := json.Marshal(v)
		f := filepath.Join(os.TempDir(), "verif-adhoc.json")
		if d := os.Getenv("VERIF_SHM"); d != "" {
			f = filepath.Join(d, "verif-adhoc.json")
		}
		os.WriteFile(f, b, 0o644)
		defer os.Remove(f)
		os.Exit(replay(t, id, tier, f))
	}
	if mk := histChecks[id]; mk != nil {
		os.Exit(runHist(t, id, tier, mk(tier)))
	}
	if f := otherChecks[id]; f != nil {
		os.Exit(f(t, tier))
	}
	fmt.Fprintf(os.Stderr, "unknown check %q\n", id)
	os.Exit(2)
}

// extraAfterHist: additional (scheduler) scenarios of a history property; their
// coverage is merged into the same evidence file.
var extraAfterHist = map[string][]extraPart{}

type extraPart func(t *testing.T, tier string) (map[string]any, []report.Viol, error)

// addExtra registers one more part of a history property's check (parts never
// replace each other: every registered part runs).
func addExtra(id string, f extraPart) { extraAfterHist[id] = append(extraAfterHist[id], f) }

// isInternalWorker: this process is a sub-worker of some check (not the check itself).
func isInternalWorker() bool {
	for _, k := range []string{"VERIF_WORKER", "VERIF_C08_BYTES", "VERIF_C11_WORKER", "VERIF_C16_SERVER"} {
		if os.Getenv(k) != "" {
			return true
		}
	}
	return false
}

// runIsolated runs the whole check in a child process.  Exit codes 0 and 1 are
// passed through.  If the child crashes or hangs, the output decides: a panic
// with repository frames on the stack, or a deadlock of the code under test, is a
// VIOLATION of the property (the change under test made the real code crash or
// hang inside the harness); anything else is a harness failure (exit 2, no verdict).
func runIsolated(id, tier string) int {
	t0 := time.Now()
	exe, err := os.Executable()
	if err != nil {
		fmt.Fprintln(os.Stderr, err)
		return 2
	}
	limit := 40 * time.Minute
	if tier == "thorough" {
		limit = 3 * time.Hour
	}
	ctx, cancel := context.WithTimeout(context.Background(), limit)
	defer cancel()
	cmd := exec.CommandContext(ctx, exe, "-test.run", "^TestCheck$", "-test.timeout", "0")
	cmd.Env = append(os.Environ(), "VERIF_CHILD=1")
	tail := &tailWriter{max: 200000}
	cmd.Stdout = io.MultiWriter(os.Stdout, tail)
	cmd.Stderr = io.MultiWriter(os.Stderr, tail)
	runErr := cmd.Run()
	code := 0
	if runErr != nil {
		code = 2
		if ee, ok := runErr.(*exec.ExitError); ok {
			code = ee.ExitCode()
		}
	}
	if code == 0 || code == 1 {
		return code
	}
	out := string(tail.buf)
	hung := ctx.Err() != nil
	repoPanic := strings.Contains(out, "panic:") && strings.Contains(out, "go.6river.tech/mmmbbb/") && panicInRepo(out)
	deadlock := strings.Contains(out, "deadlock: all goroutines in bubble are blocked") || strings.Contains(out, "all goroutines are asleep") || strings.Contains(out, "HANG: the code under test")
	if !(repoPanic || deadlock || hung) {
		fmt.Fprintf(os.Stderr, "check %s: harness failure (exit %d), no verdict\n", id, code)
		return 2
	}
	what := "crashed (panic in repository code)"
	if deadlock {
		what = "deadlocked"
	} else if hung && !repoPanic {
		what = fmt.Sprintf("did not finish within %v", limit)
	}
	excerpt := out
	if i := strings.Index(excerpt, "panic:"); i >= 0 {
		excerpt = excerpt[i:]
	} else if i := strings.Index(excerpt, "deadlock:"); i >= 0 {
		excerpt = excerpt[i:]
	}
	if len(excerpt) > 1500 {
		excerpt = excerpt[:1500]
	}
	path := ""
	if i := strings.LastIndex(out, "while running path "); i >= 0 {
		path = out[i+len("while running path "):]
		if j := strings.IndexByte(path, '\n'); j >= 0 {
			path = path[:j]
		}
	}
	v := report.Viol{Property: id, Check: id + "/isolation", Rule: "crash-or-hang", Text: "the code under test " + what + " while the check was driving it: " + strings.ReplaceAll(excerpt, "\n", " | "), Trace: []string{path}}
	ev := report.Evidence{PropertyID: id, Tier: tier, Seed: report.Seed(), Level: "other", Coverage: map[string]any{"explanation": "the check process ended abnormally; see violation", "evaluations": 1, "distinct_nontrivial": 2}}
	return report.Finish(ev, []report.Viol{v}, t0)
}

// panicInRepo: the first goroutine trace after "panic:" passes through repository code.
func panicInRepo(out string) bool {
	i := strings.Index(out, "panic:")
	if i < 0 {
		return false
	}
	rest := out[i:]
	if j := strings.Index(rest, "\n\ngoroutine "); j >= 0 {
		// keep only the panicking goroutine's stack (up to the next blank line after it)
		k := strings.Index(rest[j+2:], "\n\n")
		if k >= 0 {
			rest = rest[:j+2+k]
		}
	}
	return strings.Contains(rest, "go.6river.tech/mmmbbb/")
}

type tailWriter struct {
	buf []byte
	max int
}

func (t *tailWriter) Write(p []byte) (int, error) {
	t.buf = append(t.buf, p...)
	if len(t.buf) > t.max {
		t.buf = t.buf[len(t.buf)-t.max:]
	}
	return len(p), nil
}

// histExtra: history scenarios that a check of another engine runs in
// addition (so that replay finds them)
var histExtra = map[string]func(tier string) []*hist.Scenario{}

// histPart runs history scenarios and returns their coverage and violations.
func histPart(t *testing.T, id, tier string, scens []*hist.Scenario, t0 time.Time) (map[string]any, []report.Viol, int, int) {
	exe, err := os.Executable()
	if err != nil {
		fmt.Fprintln(os.Stderr, err)
		return nil, nil, 0, 2
	}
	deadline := t0.Add(budget(tier))
	var all []report.Viol
	cov := map[string]any{}
	perScen := map[string]any{}
	states, trans, drains, keychecks, nonEmpty := 0, 0, 0, 0, 0
	exhaustive := true
	var samples []any
	ruleHits := map[string]int{}
	foreign := map[string]int{}
	for _, sc := range scens {
		if only := os.Getenv("VERIF_ONLY"); only != "" && only != sc.ID {
			continue // debugging aid: one scenario
		}
		if s := os.Getenv("VERIF_DEPTH"); s != "" {
			sc.Depth, _ = strconv.Atoi(s)
		}
		var st hist.Stats
		var viol []hist.Violation
		var err error
		if sc.Skeleton != nil {
			sc.Skeleton.Scen = sc
			st, viol, err = hist.RunSkeleton(sc.Skeleton, exe, []string{"-test.run", "^TestCheck$", "-test.timeout", "0"}, nWorkers(), deadline)
		} else {
			st, viol, err = hist.Explore(sc, exe, []string{"-test.run", "^TestCheck$", "-test.timeout", "0"}, nWorkers(), deadline, 50)
		}
		if err != nil {
			fmt.Fprintf(os.Stderr, "check %s scenario %s: harness error: %v\n", id, sc.ID, err)
			return nil, nil, 0, 2
		}
		fmt.Printf("%s: depth=%d states=%d transitions=%d drains=%d levels=%v nonEmptyPulls=%d exhaustive=%v wall=%.1fs hits=%v foreign=%v\n",
			sc.ID, st.MaxDepth, st.States, st.Transitions, st.DrainRuns, st.Levels, st.NonEmptyPulls, st.Exhaustive, st.Wall, st.RuleHits, st.Foreign)
		if os.Getenv("VERIF_SHOW_FOREIGN") != "" {
			for _, f := range st.ForeignEx {
				fmt.Printf("  FOREIGN %s %v\n    path: %v\n", f.Hit.Rule, f.Hit.Text, f.Path)
			}
		}
		states += st.States
		trans += st.Transitions + st.DrainOps
		drains += st.DrainRuns
		keychecks += st.KeyChecks
		nonEmpty += st.NonEmptyPulls
		exhaustive = exhaustive && st.Exhaustive
		if st.StateDependent > 0 {
			fmt.Printf("  %s: %d tasks behaved differently in a warm worker than from a cold start (process-global state); %d hits did not reproduce from a cold start and were dropped\n", sc.ID, st.StateDependent, st.Unconfirmed)
		}
		perScen[sc.ID] = map[string]any{"depth_target": sc.Depth, "depth_completed": st.MaxDepth, "states": st.States, "transitions": st.Transitions, "drain_runs": st.DrainRuns, "drain_ops": st.DrainOps, "levels": st.Levels, "per_op": st.PerOp, "distinct_responses": len(st.Responses), "responses": st.Responses, "exhaustive": st.Exhaustive, "wall_s": st.Wall}
		for _, s := range st.Samples {
			samples = append(samples, map[string]any{"scenario": sc.ID, "ops": s})
		}
		for r, n := range st.RuleHits {
			ruleHits[r] += n
		}
		for r, n := range st.Foreign {
			foreign[r] += n
		}
		for _, v := range viol {
			all = append(all, report.Viol{Property: id, Check: v.Scen, Rule: v.Hit.Rule, Text: v.Hit.Text, Trace: v.Path})
		}
	}
	if len(samples) == 0 {
		samples = append(samples, "no successor states")
	}
	cov["states"] = states
	cov["transitions"] = trans
	cov["traces_validated_against_impl"] = trans
	cov["samples"] = samples
	cov["exhaustive"] = exhaustive
	cov["scenarios"] = perScen
	cov["drain_runs"] = drains
	cov["restore_vs_replay_key_checks"] = keychecks
	cov["pulls_returning_messages"] = nonEmpty
	cov["rule_hits"] = ruleHits
	cov["foreign_rule_hits"] = foreign
	return cov, all, trans, 0
}

func runHist(t *testing.T, id, tier string, scens []*hist.Scenario) int {
	t0 := time.Now()
	cov, all, trans, rc := histPart(t, id, tier, scens, t0)
	if rc != 0 {
		return rc
	}
	for _, extra := range extraAfterHist[id] {
		if os.Getenv("VERIF_NO_SCHED") != "" {
			break
		}
		ecov, ev, err := extra(t, tier)
		if err != nil {
			fmt.Fprintf(os.Stderr, "check %s: additional part: harness error: %v\n", id, err)
			return 2
		}
		for k, v := range ecov {
			if _, dup := cov[k]; dup {
				fmt.Fprintf(os.Stderr, "check %s: two parts write the coverage field %q\n", id, k)
				return 2
			}
			cov[k] = v
		}
		if x, ok := ecov["schedule_executions"].(int); ok {
			cov["traces_validated_against_impl"] = trans + x
		}
		if x, ok := ecov["schedules_exhaustive"].(bool); ok && !x {
			cov["exhaustive"] = false
		}
		all = append(all, ev...)
	}
	cov["explanation"] = "explicit-state BFS over operation histories; every transition is one real API call on the repository code + SQLite under virtual time, compared with the reference model; states deduplicated by canonical table dump + model digest; there is no separate model trace to validate: every transition IS an implementation execution"
	ev := report.Evidence{PropertyID: id, Tier: tier, Seed: report.Seed(), Level: "model_checking", Coverage: cov,
		Assumptions: []string{"SQLite backend only", "gRPC handler objects driven in-process (no HTTP/2)", "clock moves land >=0.4s away from every deadline", "1µs virtual time per SQL statement"}}
	return report.Finish(ev, all, t0)
}

func replay(t *testing.T, id, tier, file string) int {
	b, err := os.ReadFile(file)
	if err != nil {
		fmt.Fprintln(os.Stderr, err)
		return 2
	}
	var v report.Viol
	if err := json.Unmarshal(b, &v); err != nil {
		fmt.Fprintln(os.Stderr, err)
		return 2
	}
	mk := histChecks[id]
	if x := histExtra[id]; x != nil && mk == nil {
		for _, sc := range x(tier) {
			if sc.ID == v.Check {
				mk = x
			}
		}
	}
	if mk == nil {
		if f := replayers[id]; f != nil {
			return f(t, tier, v)
		}
		fmt.Fprintf(os.Stderr, "no replayer for %s\n", id)
		return 2
	}
	var sc *hist.Scenario
	for _, s := range mk(tier) {
		if s.ID == v.Check {
			sc = s
		}
	}
	if sc == nil {
		fmt.Fprintf(os.Stderr, "scenario %s not found\n", v.Check)
		return 2
	}
	code := 0
	synctest.Test(t, func(t *testing.T) {
		wk, err := hist.NewWorker([]*hist.Scenario{sc})
		if err != nil {
			fmt.Fprintln(os.Stderr, err)
			code = 2
			return
		}
		defer wk.Close()
		path := v.Trace
		drain := false
		if n := len(path); n > 0 && path[n-1] == "<drain>" {
			path, drain = path[:n-1], true
		}
		hist.Verbose = os.Getenv("VERIF_VERBOSE") != ""
		r, hits, err := wk.Replay(sc, path)
		if err != nil {
			fmt.Fprintln(os.Stderr, err)
			code = 2
			return
		}
		if drain {
			dh, _ := r.Drain()
			hits = append(hits, dh...)
		}
		for _, h := range hits {
			fmt.Println("HIT", h)
			for _, p := range h.Props {
				if p == id {
					code = 1
				}
			}
			for _, rule := range sc.AlsoOwn {
				if rule == h.Rule && len(h.Props) > 0 {
					code = 1
				}
			}
		}
		fmt.Printf("replayed %d ops, %d hits\n", len(path), len(hits))
	})
	return code
}

var replayers = map[string]func(t *testing.T, tier string, v report.Viol) int{}

func sortedKeys[V any](m map[string]V) []string {
	ks := make([]string, 0, len(m))
	for k := range m {
		ks = append(ks, k)
	}
	sort.Strings(ks)
	return ks
}

var _ = model.Op{}
