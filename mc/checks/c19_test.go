package checks

import (
	"bytes"
	"context"
	"encoding/base64"
	"encoding/json"
	"errors"
	"fmt"
	"io"
	"net/http"
	"os"
	"sort"
	"strings"
	"sync"
	"testing"
	"testing/synctest"
	"time"

	"github.com/google/uuid"

	"go.6river.tech/mmmbbb/actions"
	"go.6river.tech/mmmbbb/services"
	"go.6river.tech/mmmbbb/grpc/pubsubpb"

	"verif/mc/report"
	"verif/mc/world"
)

func init() { otherChecks["C19"] = runC19 }

// scripted endpoint: every POST parks until the harness answers it.
type pendingPost struct {
	n      int
	req    *http.Request
	body   []byte
	answer chan postAnswer
	at     time.Time
}
type postAnswer struct {
	status int
	err    error
	slow   bool
	// bodyErr: the status line and headers arrive, reading the body then fails
	// (connection reset in the middle of the response)
	bodyErr bool
}

// brokenBody delivers a few bytes and then a transport error.
type brokenBody struct{ n int }

func (b *brokenBody) Read(p []byte) (int, error) {
	if b.n == 0 {
		b.n++
		return copy(p, "oops"), nil
	}
	return 0, errTransport
}
func (b *brokenBody) Close() error { return nil }

type scriptedRT struct {
	mu      sync.Mutex
	posts   []*pendingPost // all POSTs seen
	open    map[int]*pendingPost
	maxOpen int
}

func (rt *scriptedRT) RoundTrip(req *http.Request) (*http.Response, error) {
	body, _ := io.ReadAll(req.Body)
	rt.mu.Lock()
	p := &pendingPost{n: len(rt.posts), req: req, body: body, answer: make(chan postAnswer, 1), at: time.Now()}
	rt.posts = append(rt.posts, p)
	rt.open[p.n] = p
	if len(rt.open) > rt.maxOpen {
		rt.maxOpen = len(rt.open)
	}
	rt.mu.Unlock()
	var a postAnswer
	select {
	case a = <-p.answer:
	case <-req.Context().Done():
		rt.mu.Lock()
		delete(rt.open, p.n)
		rt.mu.Unlock()
		return nil, req.Context().Err()
	}
	if a.slow {
		time.Sleep(1500 * time.Millisecond)
	}
	rt.mu.Lock()
	delete(rt.open, p.n)
	rt.mu.Unlock()
	if a.err != nil {
		return nil, a.err
	}
	if a.bodyErr {
		return &http.Response{StatusCode: a.status, Status: fmt.Sprint(a.status), Body: &brokenBody{}, ContentLength: 64, Header: http.Header{}, Request: req}, nil
	}
	return &http.Response{StatusCode: a.status, Status: fmt.Sprint(a.status), Body: io.NopCloser(bytes.NewReader([]byte("ok"))), Header: http.Header{}, Request: req}, nil
}

func (rt *scriptedRT) openList() []*pendingPost {
	rt.mu.Lock()
	defer rt.mu.Unlock()
	var out []*pendingPost
	for _, p := range rt.open {
		out = append(out, p)
	}
	sort.Slice(out, func(i, j int) bool { return out[i].n < out[j].n })
	return out
}

type pushBody struct {
	Message struct {
		Attributes  map[string]string `json:"attributes"`
		Data        string            `json:"data"`
		MessageID   string            `json:"messageId"`
		OrderingKey string            `json:"orderingKey"`
		PublishTime string            `json:"publishTime"`
	} `json:"message"`
	Subscription    string `json:"subscription"`
	DeliveryAttempt int    `json:"deliveryAttempt"`
}

const (
	c19Topic = "projects/p/topics/t"
	c19Sub   = "projects/p/subscriptions/push"
)

type c19Env struct {
	w     *world.World
	base  *world.Snapshot
	subID uuid.UUID
}

func c19Setup(t *testing.T) *c19Env {
	w, err := world.Open()
	if err != nil {
		t.Fatal(err)
	}
	w.SeqTick = false
	ctx := context.Background()
	if _, err := w.Pub.CreateTopic(ctx, &pubsubpb.Topic{Name: c19Topic}); err != nil {
		t.Fatal(err)
	}
	if _, err := w.Sub.CreateSubscription(ctx, &pubsubpb.Subscription{Name: c19Sub, Topic: c19Topic, PushConfig: &pubsubpb.PushConfig{PushEndpoint: "http://endpoint.invalid/push"}}); err != nil {
		t.Fatal(err)
	}
	var idStr string
	if err := w.DB.QueryRow("SELECT id FROM subscriptions").Scan(&idStr); err != nil {
		t.Fatal(err)
	}
	base, _ := w.Dump()
	return &c19Env{w: w, base: base, subID: uuid.MustParse(idStr)}
}

type c19Msg struct {
	data  []byte
	attrs map[string]string
	key   string
}

// startPusher restores the base state, publishes msgs and starts the real
// HttpPushStreamer against a scripted endpoint.
func (e *c19Env) start(msgs []c19Msg) (rt *scriptedRT, ids []string, pusher *actions.HttpPushStreamer, stop func() string, err error) {
	if err = e.w.Restore(e.base); err != nil {
		return
	}
	ctx := context.Background()
	req := &pubsubpb.PublishRequest{Topic: c19Topic}
	for _, m := range msgs {
		req.Messages = append(req.Messages, &pubsubpb.PubsubMessage{Data: m.data, Attributes: m.attrs, OrderingKey: m.key})
	}
	e.w.SeqTick = true
	resp, perr := e.w.Pub.Publish(ctx, req)
	e.w.SeqTick = false
	if perr != nil {
		err = perr
		return
	}
	ids = resp.MessageIds
	rt = &scriptedRT{open: map[int]*pendingPost{}}
	pusher = actions.NewHttpPusher(c19Sub, e.subID, "http://endpoint.invalid/push", &http.Client{Transport: rt}, e.w.Client)
	pctx, cancel := context.WithCancel(context.Background())
	done := make(chan error, 1)
	go func() { done <- pusher.Go(pctx) }()
	stop = func() string {
		cancel()
		msg := ""
		select {
		case <-done:
		case <-time.After(time.Hour):
			msg = "push streamer did not stop after its context was cancelled"
		}
		synctest.Wait()
		actions.WakeAllInternal()
		return msg
	}
	synctest.Wait()
	return
}

func (e *c19Env) completed(msgID string) (done bool, attempts int, err error) {
	err = e.w.DB.QueryRow("SELECT completed_at IS NOT NULL, attempts FROM deliveries WHERE message_id=?", msgID).Scan(&done, &attempts)
	return
}

var c19Success = map[int]bool{200: true, 201: true, 202: true, 204: true, 102: true}

func checkEnvelope(p *pendingPost, m c19Msg, id string, attempt int, pubAfter, pubBefore time.Time) string {
	return checkEnvelopeSub(p, m, id, attempt, pubAfter, pubBefore, c19Sub)
}

func checkEnvelopeSub(p *pendingPost, m c19Msg, id string, attempt int, pubAfter, pubBefore time.Time, subName string) string {
	if p.req.Method != http.MethodPost {
		return "method " + p.req.Method
	}
	if ct := p.req.Header.Get("Content-Type"); !strings.HasPrefix(ct, "application/json") {
		return "content-type " + ct
	}
	var b pushBody
	dec := json.NewDecoder(bytes.NewReader(p.body))
	if err := dec.Decode(&b); err != nil {
		return "body is not JSON: " + err.Error()
	}
	raw, err := base64.StdEncoding.DecodeString(b.Message.Data)
	if err != nil {
		return "message.data is not base64: " + err.Error()
	}
	if !jsonSame(raw, m.data) {
		return fmt.Sprintf("message.data decodes to %s, published %s", raw, m.data)
	}
	if len(b.Message.Attributes) != len(m.attrs) {
		return fmt.Sprintf("attributes %v, published %v", b.Message.Attributes, m.attrs)
	}
	for k, v := range m.attrs {
		if w, ok := b.Message.Attributes[k]; !ok || w != v {
			return fmt.Sprintf("attributes %v, published %v", b.Message.Attributes, m.attrs)
		}
	}
	if b.Message.MessageID != id {
		return fmt.Sprintf("messageId %s, Publish returned %s", b.Message.MessageID, id)
	}
	if b.Message.OrderingKey != m.key {
		return fmt.Sprintf("orderingKey %q, published %q", b.Message.OrderingKey, m.key)
	}
	pt, err := time.Parse(time.RFC3339Nano, b.Message.PublishTime)
	if err != nil {
		return "publishTime is not RFC 3339: " + b.Message.PublishTime
	}
	if pt.Before(pubAfter) || pt.After(pubBefore) {
		return fmt.Sprintf("publishTime %v outside the publish call [%v, %v]", pt, pubAfter, pubBefore)
	}
	if b.Subscription != subName {
		return "subscription " + b.Subscription
	}
	if b.DeliveryAttempt != attempt {
		return fmt.Sprintf("deliveryAttempt %d, want %d", b.DeliveryAttempt, attempt)
	}
	return ""
}

func jsonSame(a, b []byte) bool {
	if bytes.Equal(a, b) {
		return true
	}
	var va, vb any
	da := json.NewDecoder(bytes.NewReader(a))
	da.UseNumber()
	db := json.NewDecoder(bytes.NewReader(b))
	db.UseNumber()
	if da.Decode(&va) != nil || db.Decode(&vb) != nil {
		return false
	}
	ja, _ := json.Marshal(va)
	jb, _ := json.Marshal(vb)
	return bytes.Equal(ja, jb)
}

var errTransport = errors.New("connection refused (scripted)")

func runC19(t *testing.T, tier string) int {
	t0 := time.Now()
	sink := &violSink{}
	statusRuns, envelopeRuns, orderRuns, windowStates, drained := 0, 0, 0, 0, 0
	outcomes := map[string]int{}
	var samples []any
	synctest.Test(t, func(t *testing.T) {
		env := c19Setup(t)
		defer env.w.Close()
		msg := c19Msg{data: []byte(`{"a":[1,2,{"b":"<&>é"}]}`), attrs: map[string]string{"k": "v", "": "empty key", "é": ""}, key: "ok-1"}

		// ---------------- (i) every final status code and transport errors, fast and slow
		type ans struct {
			name string
			a    postAnswer
		}
		var answers []ans
		for code := 100; code <= 599; code++ {
			answers = append(answers, ans{fmt.Sprintf("%d fast", code), postAnswer{status: code}})
			if tier == "thorough" || code%10 == 0 || c19Success[code] || code == 429 || code == 503 {
				answers = append(answers, ans{fmt.Sprintf("%d slow", code), postAnswer{status: code, slow: true}})
			}
		}
		// a failing status whose body cannot be read is still a failing status
		for _, code := range []int{300, 400, 404, 429, 500, 503} {
			answers = append(answers, ans{fmt.Sprintf("%d fast, body breaks off", code), postAnswer{status: code, bodyErr: true}},
				ans{fmt.Sprintf("%d slow, body breaks off", code), postAnswer{status: code, bodyErr: true, slow: true}})
		}
		answers = append(answers, ans{"transport error fast", postAnswer{err: errTransport}}, ans{"transport error slow", postAnswer{err: errTransport, slow: true}}, ans{"context deadline", postAnswer{err: context.DeadlineExceeded}})
		for _, an := range answers {
			pubAfter := time.Now()
			rt, ids, _, stop, err := env.start([]c19Msg{msg})
			if err != nil {
				t.Fatal(err)
			}
			pubBefore := time.Now()
			statusRuns++
			fail := func(rule, text string) {
				sink.add(report.Viol{Property: "C19", Check: "C19/status", Rule: rule, Text: fmt.Sprintf("endpoint answers %s: %s", an.name, text), Trace: []string{an.name}})
			}
			open := rt.openList()
			if len(open) != 1 {
				fail("not-pushed", fmt.Sprintf("%d POSTs in flight after start, want 1", len(open)))
				stop()
				continue
			}
			if e := checkEnvelope(open[0], msg, ids[0], 1, pubAfter, pubBefore); e != "" {
				fail("envelope", e)
			}
			open[0].answer <- an.a
			if an.a.slow {
				time.Sleep(2 * time.Second)
			}
			synctest.Wait()
			done, attempts, err := env.completed(ids[0])
			if err != nil {
				t.Fatal(err)
			}
			success := an.a.err == nil && c19Success[an.a.status]
			outcomes[fmt.Sprintf("success=%v acked=%v", success, done)]++
			if done != success {
				fail("ack-mapping", fmt.Sprintf("delivery completed=%v, want %v", done, success))
			}
			if attempts != 1 {
				fail("attempts", fmt.Sprintf("attempts=%d after the first push", attempts))
			}
			// never pushed again after success / pushed again with attempt 2 after the backoff otherwise
			time.Sleep(30 * time.Second)
			synctest.Wait()
			open = rt.openList()
			if success {
				if len(open) != 0 || len(rt.posts) != 1 {
					fail("pushed-after-ack", fmt.Sprintf("%d POSTs in total after an acknowledged push", len(rt.posts)))
				}
			} else {
				if len(open) != 1 || len(rt.posts) != 2 {
					fail("not-retried", fmt.Sprintf("%d POSTs in total, %d in flight 30s after a failed push, want a second attempt", len(rt.posts), len(open)))
				} else {
					if gap := open[0].at.Sub(rt.posts[0].at); gap < 10*time.Second {
						fail("retry-early", fmt.Sprintf("second push only %v after the first (backoff is >= 11s)", gap))
					}
					if e := checkEnvelope(open[0], msg, ids[0], 2, pubAfter, pubBefore); e != "" {
						fail("envelope-retry", e)
					}
					open[0].answer <- postAnswer{status: 200}
					synctest.Wait()
					if done, _, _ := env.completed(ids[0]); !done {
						fail("ack-mapping", "a 200 on the second attempt did not acknowledge")
					}
				}
			}
			if m := stop(); m != "" {
				fail("stop", m)
			}
			if len(samples) < 3 {
				samples = append(samples, map[string]any{"endpoint_answer": an.name, "first_request_body": string(rt.posts[0].body)})
			}
		}

		// ---------------- envelope fidelity over a payload / attribute corpus
		for _, m := range c19Corpus() {
			pubAfter := time.Now()
			rt, ids, _, stop, err := env.start([]c19Msg{m})
			if err != nil {
				sink.add(report.Viol{Property: "C19", Check: "C19/envelope", Rule: "publish-rejected", Text: fmt.Sprintf("valid JSON payload %s rejected: %v", m.data, err), Trace: []string{string(m.data)}})
				continue
			}
			pubBefore := time.Now()
			envelopeRuns++
			open := rt.openList()
			if len(open) != 1 {
				sink.add(report.Viol{Property: "C19", Check: "C19/envelope", Rule: "not-pushed", Text: fmt.Sprintf("%d POSTs in flight for payload %s", len(open), m.data), Trace: []string{string(m.data)}})
			} else {
				if e := checkEnvelope(open[0], m, ids[0], 1, pubAfter, pubBefore); e != "" {
					sink.add(report.Viol{Property: "C19", Check: "C19/envelope", Rule: "envelope", Text: e, Trace: []string{string(m.data), fmt.Sprint(m.attrs), m.key}})
				}
				open[0].answer <- postAnswer{status: 204}
				synctest.Wait()
			}
			stop()
		}

		// ---------------- envelope of a message that reaches a push subscription through
		// DEAD-LETTERING (forwarded seconds after it was published): still that
		// message's id, payload, attributes, ordering key and publish time
		for _, m := range c19Corpus()[:3] {
			if err := env.w.Restore(env.base); err != nil {
				t.Fatal(err)
			}
			ctx := context.Background()
			const srcT, dlT, srcS, dlS = "projects/p/topics/dlsrc", "projects/p/topics/dldst", "projects/p/subscriptions/dlsrc", "projects/p/subscriptions/dlpush"
			for _, tn := range []string{srcT, dlT} {
				if _, err := env.w.Pub.CreateTopic(ctx, &pubsubpb.Topic{Name: tn}); err != nil {
					t.Fatal(err)
				}
			}
			if _, err := env.w.Sub.CreateSubscription(ctx, &pubsubpb.Subscription{Name: srcS, Topic: srcT, DeadLetterPolicy: &pubsubpb.DeadLetterPolicy{DeadLetterTopic: dlT, MaxDeliveryAttempts: 1}}); err != nil {
				t.Fatal(err)
			}
			if _, err := env.w.Sub.CreateSubscription(ctx, &pubsubpb.Subscription{Name: dlS, Topic: dlT, PushConfig: &pubsubpb.PushConfig{PushEndpoint: "http://endpoint.invalid/dl"}}); err != nil {
				t.Fatal(err)
			}
			var dlID string
			if err := env.w.DB.QueryRow("SELECT id FROM subscriptions WHERE name=?", dlS).Scan(&dlID); err != nil {
				t.Fatal(err)
			}
			env.w.SeqTick = true
			pubAfter := time.Now()
			resp, err := env.w.Pub.Publish(ctx, &pubsubpb.PublishRequest{Topic: srcT, Messages: []*pubsubpb.PubsubMessage{{Data: m.data, Attributes: m.attrs, OrderingKey: m.key}}})
			pubBefore := time.Now()
			if err != nil {
				t.Fatal(err)
			}
			time.Sleep(5 * time.Second)
			p1, err := env.w.Sub.Pull(ctx, &pubsubpb.PullRequest{Subscription: srcS, MaxMessages: 1, ReturnImmediately: true})
			if err != nil || len(p1.ReceivedMessages) != 1 {
				t.Fatalf("dead-letter envelope: first pull: %v %v", p1, err)
			}
			if _, err := env.w.Sub.ModifyAckDeadline(ctx, &pubsubpb.ModifyAckDeadlineRequest{Subscription: srcS, AckIds: []string{p1.ReceivedMessages[0].AckId}}); err != nil {
				t.Fatal(err)
			}
			time.Sleep(time.Second)
			if p2, err := env.w.Sub.Pull(ctx, &pubsubpb.PullRequest{Subscription: srcS, MaxMessages: 1, ReturnImmediately: true}); err != nil || len(p2.ReceivedMessages) != 0 {
				t.Fatalf("dead-letter envelope: second pull (should forward): %v %v", p2, err)
			}
			env.w.SeqTick = false
			rt := &scriptedRT{open: map[int]*pendingPost{}}
			pusher := actions.NewHttpPusher(dlS, uuid.MustParse(dlID), "http://endpoint.invalid/dl", &http.Client{Transport: rt}, env.w.Client)
			pctx, cancel := context.WithCancel(context.Background())
			done := make(chan error, 1)
			go func() { done <- pusher.Go(pctx) }()
			synctest.Wait()
			envelopeRuns++
			open := rt.openList()
			if len(open) != 1 {
				sink.add(report.Viol{Property: "C19", Check: "C19/envelope-deadlettered", Rule: "not-pushed", Text: fmt.Sprintf("%d POSTs in flight for the dead-lettered message %s", len(open), m.data), Trace: []string{string(m.data)}})
			} else {
				if e := checkEnvelopeSub(open[0], m, resp.MessageIds[0], 1, pubAfter, pubBefore, dlS); e != "" {
					sink.add(report.Viol{Property: "C19", Check: "C19/envelope-deadlettered", Rule: "envelope", Text: "message forwarded to the push subscription's topic 6 s after its publish: " + e, Trace: []string{string(m.data), fmt.Sprint(m.attrs), m.key}})
				}
				open[0].answer <- postAnswer{status: 204}
				synctest.Wait()
			}
			cancel()
			select {
			case <-done:
			case <-time.After(time.Hour):
			}
			synctest.Wait()
			actions.WakeAllInternal()
		}

		// ---------------- the SERVICE that owns the pushers (services/http-push.go): a
		// pusher that ended on its own (here: an endpoint without a scheme, the POST
		// cannot even be built) is replaced on the next round, so that once the
		// endpoint is corrected the message is pushed after its backoff and acknowledged
		{
			if err := env.w.Restore(env.base); err != nil {
				t.Fatal(err)
			}
			ctx := context.Background()
			if _, err := env.w.Sub.ModifyPushConfig(ctx, &pubsubpb.ModifyPushConfigRequest{Subscription: c19Sub, PushConfig: &pubsubpb.PushConfig{PushEndpoint: "127.0.0.1:1/no-scheme"}}); err != nil {
				t.Fatal(err)
			}
			resp, err := env.w.Pub.Publish(ctx, &pubsubpb.PublishRequest{Topic: c19Topic, Messages: []*pubsubpb.PubsubMessage{{Data: []byte(`{"svc":1}`)}}})
			if err != nil {
				t.Fatal(err)
			}
			rt := &scriptedRT{open: map[int]*pendingPost{}}
			oldT := http.DefaultTransport
			http.DefaultTransport = rt
			svc := services.VerifNewPushService(env.w.Client)
			sctx, scancel := context.WithCancel(context.Background())
			rounds := 0
			round := func() {
				if err := svc.Round(sctx); err != nil {
					sink.add(report.Viol{Property: "C19", Check: "C19/push-service", Rule: "not-pushed", Text: "service round failed: " + err.Error(), Trace: []string{"push-service"}})
				}
				rounds++
				synctest.Wait()
			}
			round() // starts a pusher for the malformed endpoint; it dies on its first message
			time.Sleep(2 * time.Second)
			synctest.Wait()
			if _, err := env.w.Sub.ModifyPushConfig(ctx, &pubsubpb.ModifyPushConfigRequest{Subscription: c19Sub, PushConfig: &pubsubpb.PushConfig{PushEndpoint: "http://endpoint.invalid/fixed"}}); err != nil {
				t.Fatal(err)
			}
			pushed := false
			for i := 0; i < 6 && !pushed; i++ {
				round() // harvests what ended, starts what is missing
				time.Sleep(20 * time.Second)
				synctest.Wait()
				for _, p := range rt.openList() {
					p.answer <- postAnswer{status: 204}
					pushed = true
				}
				synctest.Wait()
			}
			orderRuns++
			done, _, _ := env.completed(resp.MessageIds[0])
			if !pushed || !done {
				sink.add(report.Viol{Property: "C19", Check: "C19/push-service", Rule: "not-pushed", Text: fmt.Sprintf("a pusher ended on its own (endpoint without a scheme), the endpoint was corrected, the service ran %d more rounds over 2 minutes: POST seen=%v, message acknowledged=%v (%d pushers registered)", rounds-1, pushed, done, svc.Pushers()), Trace: []string{"push-service"}})
			}
			scancel()
			svc.Stop()
			synctest.Wait()
			actions.WakeAllInternal()
			http.DefaultTransport = oldT
		}

		// ---------------- envelope fidelity over SEQUENCES on one pusher: every field of
		// every POST is that message's own, whatever the same connection sent before
		// (optional fields present in one message and absent in the next)
		feat := []c19Msg{
			{data: []byte(`{"n":0}`)},
			{data: []byte(`{"n":1}`), attrs: map[string]string{"k": "v"}},
			{data: []byte(`{"n":2}`), key: "key-1"},
			{data: []byte(`{"n":3}`), attrs: map[string]string{"é": "ü", "k2": ""}, key: "é😀"},
			{data: []byte(`null`), attrs: map[string]string{"": "x"}},
			{data: []byte(`"s"`), key: "key-2"},
		}
		var seqs [][]int
		for a := range feat {
			for b := range feat {
				seqs = append(seqs, []int{a, b})
				if tier == "thorough" {
					for c := range feat {
						seqs = append(seqs, []int{a, b, c})
					}
				}
			}
		}
		for _, sq := range seqs {
			var msgs []c19Msg
			for _, i := range sq {
				msgs = append(msgs, feat[i])
			}
			pubAfter := time.Now()
			rt, ids, _, stop, err := env.start(msgs)
			if err != nil {
				t.Fatal(err)
			}
			pubBefore := time.Now()
			envelopeRuns++
			seen := map[string]bool{}
			for step := 0; step < len(msgs)+1; step++ {
				open := rt.openList()
				if len(open) == 0 {
					break
				}
				for _, p := range open {
					var b pushBody
					json.Unmarshal(p.body, &b)
					idx := -1
					for i, id := range ids {
						if id == b.Message.MessageID {
							idx = i
						}
					}
					if idx < 0 {
						sink.add(report.Viol{Property: "C19", Check: "C19/envelope-sequences", Rule: "envelope", Text: fmt.Sprintf("POST carries messageId %q which Publish did not return", b.Message.MessageID), Trace: []string{fmt.Sprint(sq)}})
					} else {
						seen[ids[idx]] = true
						if e := checkEnvelope(p, msgs[idx], ids[idx], 1, pubAfter, pubBefore); e != "" {
							sink.add(report.Viol{Property: "C19", Check: "C19/envelope-sequences", Rule: "envelope", Text: fmt.Sprintf("message %d of the sequence %v pushed on one connection: %s", idx, sq, e), Trace: []string{fmt.Sprint(sq)}})
						}
					}
					p.answer <- postAnswer{status: 204}
				}
				synctest.Wait()
			}
			if len(seen) != len(msgs) {
				sink.add(report.Viol{Property: "C19", Check: "C19/envelope-sequences", Rule: "not-pushed", Text: fmt.Sprintf("%d of %d messages of the sequence %v were pushed", len(seen), len(msgs), sq), Trace: []string{fmt.Sprint(sq)}})
			}
			stop()
		}

		// ---------------- a window ABOVE the streamer's internal batch size (100): after
		// 100 fast successes the window is 101; with an endpoint that then stops
		// answering and a backlog of 300, never more than 101 requests are open
		{
			var msgs []c19Msg
			for i := 0; i < 100; i++ {
				msgs = append(msgs, c19Msg{data: []byte(fmt.Sprintf(`{"w":%d}`, i))})
			}
			rt, _, _, stop, err := env.start(msgs)
			if err != nil {
				t.Fatal(err)
			}
			answered := 0
			for step := 0; step < 1000 && answered < 100; step++ {
				open := rt.openList()
				if len(open) == 0 {
					break
				}
				for _, p := range open {
					p.answer <- postAnswer{status: 204}
					answered++
				}
				synctest.Wait()
			}
			orderRuns++
			if answered != 100 {
				sink.add(report.Viol{Property: "C19", Check: "C19/large-window", Rule: "not-pushed", Text: fmt.Sprintf("only %d of 100 messages were pushed although every push was acknowledged at once", answered), Trace: []string{"large-window"}})
			} else {
				rt.mu.Lock()
				rt.maxOpen = 0
				rt.mu.Unlock()
				req := &pubsubpb.PublishRequest{Topic: c19Topic}
				for i := 0; i < 300; i++ {
					req.Messages = append(req.Messages, &pubsubpb.PubsubMessage{Data: []byte(fmt.Sprintf(`{"b":%d}`, i))})
				}
				if _, err := env.w.Pub.Publish(context.Background(), req); err != nil {
					t.Fatal(err)
				}
				synctest.Wait()
				rt.mu.Lock()
				peak := rt.maxOpen
				rt.mu.Unlock()
				if peak > 101 || peak < 1 {
					sink.add(report.Viol{Property: "C19", Check: "C19/large-window", Rule: "window-exceeded", Text: fmt.Sprintf("after 100 fast successes the window is 101; with a silent endpoint and a backlog of 300, %d POSTs were in flight at once", peak), Trace: []string{"large-window", fmt.Sprint(peak)}})
				}
				for _, p := range rt.openList() {
					p.answer <- postAnswer{status: 204}
				}
			}
			stop()
		}

		// ---------------- (ii) pending requests answered in every order
		nMsgs, maxSteps := 5, 6
		if tier == "thorough" {
			nMsgs, maxSteps = 6, 8
		}
		kinds := []ans{{"200 fast", postAnswer{status: 200}}, {"200 slow", postAnswer{status: 200, slow: true}}, {"500", postAnswer{status: 500}}, {"error", postAnswer{err: errTransport}}}
		var msgs []c19Msg
		for i := 0; i < nMsgs; i++ {
			msgs = append(msgs, c19Msg{data: []byte(fmt.Sprintf(`{"i":%d}`, i))})
		}
		var rec func(script []int)
		rec = func(script []int) {
			// replay: script[i] = (index into current open list)*len(kinds) + kind
			rt, ids, pusher, stop, err := env.start(msgs)
			if err != nil {
				t.Fatal(err)
			}
			orderRuns++
			maxWindow := pusher.CurrentFlowControl().MaxMessages
			acked := map[string]bool{} // message id -> a success answer was given
			var trace []string
			bad := ""
			note := func() {
				w := pusher.CurrentFlowControl().MaxMessages
				if w < 1 || w > 1000 {
					bad = fmt.Sprintf("window %d outside [1,1000]", w)
				}
				if w > maxWindow {
					maxWindow = w
				}
				if n := len(rt.openList()); n > maxWindow {
					bad = fmt.Sprintf("%d concurrent pushes, the largest window so far is %d", n, maxWindow)
				}
			}
			note()
			for _, choice := range script {
				open := rt.openList()
				if len(open) == 0 {
					break
				}
				pi, ki := choice/len(kinds), choice%len(kinds)
				if pi >= len(open) {
					bad = "harness: replay diverged"
					break
				}
				var b pushBody
				json.Unmarshal(open[pi].body, &b)
				trace = append(trace, fmt.Sprintf("answer POST#%d(%s) with %s", open[pi].n, b.Message.MessageID[:4], kinds[ki].name))
				if kinds[ki].a.err == nil && c19Success[kinds[ki].a.status] {
					acked[b.Message.MessageID] = true
				}
				open[pi].answer <- kinds[ki].a
				if kinds[ki].a.slow {
					time.Sleep(1600 * time.Millisecond)
				}
				synctest.Wait()
				note()
				if bad != "" {
					break
				}
			}
			nOpen := len(rt.openList())
			// acked <=> success, for every message
			if bad == "" {
				for _, id := range ids {
					done, _, err := env.completed(id)
					if err != nil {
						t.Fatal(err)
					}
					if done != acked[id] {
						bad = fmt.Sprintf("message %s: completed=%v but a success answer was given=%v", id[:4], done, acked[id])
					}
				}
			}
			// ... and whatever the answers were, the pusher keeps going: once the endpoint is
			// healthy (every further POST gets a 204) each message is pushed again after
			// its backoff and acknowledged
			if bad == "" {
				left := 0
				for round := 0; round < 12; round++ {
					for _, p := range rt.openList() {
						p.answer <- postAnswer{status: 204}
					}
					synctest.Wait()
					left = 0
					for _, id := range ids {
						if done, _, _ := env.completed(id); !done {
							left++
						}
					}
					if left == 0 && len(rt.openList()) == 0 {
						break
					}
					time.Sleep(40 * time.Second)
					synctest.Wait()
				}
				if left > 0 {
					bad = fmt.Sprintf("the endpoint answers 204 to everything from here on, but %d of %d messages are still unacknowledged (and not being pushed) 8 minutes later", left, len(ids))
					trace = append(trace, "then 204 to every POST")
				}
				drained++
			}
			stop()
			windowStates++
			if bad != "" {
				sink.add(report.Viol{Property: "C19", Check: "C19/order", Rule: "push-window", Text: bad, Trace: trace})
				return
			}
			if len(script) >= maxSteps || nOpen == 0 {
				return
			}
			for pi := 0; pi < nOpen; pi++ {
				for ki := range kinds {
					rec(append(append([]int{}, script...), pi*len(kinds)+ki))
				}
			}
		}
		rec(nil)

		// ---------------- (iii) the adaptive window in Receive, driven directly
		wv, ws := c19Window(t, env, tier)
		windowStates += ws
		for _, v := range wv {
			sink.add(v)
		}
	})
	if len(samples) == 0 {
		samples = append(samples, "none")
	}
	cov := map[string]any{
		"states":                        windowStates,
		"transitions":                   statusRuns + envelopeRuns + orderRuns,
		"traces_validated_against_impl": statusRuns + envelopeRuns + orderRuns,
		"samples":                       samples,
		"status_answers":                statusRuns,
		"envelope_corpus":               envelopeRuns,
		"answer_order_executions":       orderRuns,
		"answer_orders_followed_by_a_healthy_endpoint": drained,
		"distinct_outcomes":             outcomes,
		"exhaustive":                    true,
		"explanation":                   "the real HttpPushStreamer + MessageStreamer on a scripted http.RoundTripper inside a synctest bubble: (i) one execution per final status 100-599 (fast; slow for a subset, all in thorough) and per transport error, with retry after the backoff; (ii) DFS over every choice of which in-flight POST to answer next and how (200 fast / 200 slow / 500 / transport error) up to the step bound; (iii) BFS over Receive with all fast/slow/nack batch sizes near both window bounds",
	}
	ev := report.Evidence{PropertyID: "C19", Tier: tier, Seed: report.Seed(), Level: "model_checking", Coverage: cov,
		Assumptions: []string{"no real sockets: the endpoint is a scripted RoundTripper", "in-flight pushes are compared with the largest window published so far (a shrinking window cannot recall requests already sent)"}}
	return report.Finish(ev, sink.list, t0)
}

func c19Corpus() []c19Msg {
	payloads := []string{
		`{"a":1}`, ` { "a" : 1 } `, "[\n1,\t2 ]", `"<>&"`, `"  "`, `"😀"`, `"\"q\""`, `1e400`, `9223372036854775808`, `-0`, `[[[[[[[[[[1]]]]]]]]]]`, `{"a":1,"a":2}`, `"x"`, `true`, `null`, `0.1`, `{"":""}`,
		// escape sequences inside strings: escaped HTML-sensitive characters, a LITERAL
		// backslash followed by u003c (a JSON document quoted inside a string), a
		// surrogate pair, an escaped solidus, line separators
		`"\u003c\u0026\u003e"`, `"\\u003cp\\u003e"`, `{"body":"{\"h\":\"\\u003cp\\u003e \\u0026\"}"}`, `"\ud83d\ude00"`, `"\/"`, `"\\"`, `"\u2028\u2029"`, `"\u0001"`,
	}
	attrs := []map[string]string{nil, {"": "v"}, {"k": ""}, {"é": "ü", "k2": "v2"}, {"big": strings.Repeat("x", 1024)}}
	keys := []string{"", "k", "é😀"}
	var out []c19Msg
	for _, p := range payloads {
		for ai, a := range attrs {
			for ki, k := range keys {
				if (ai+ki)%2 == 1 && p != `{"a":1}` {
					continue
				}
				out = append(out, c19Msg{data: []byte(p), attrs: a, key: k})
			}
		}
	}
	return out
}

// c19Window drives httpPushStreamConn.Receive directly: from windows near both
// bounds, every batch of 1..cap ids on each queue; the new window must be
// old+n (fast), old-n (slow), old-10n (nack), clamped to [1,1000].
func c19Window(t *testing.T, env *c19Env, tier string) ([]report.Viol, int) {
	var viols []report.Viol
	states := 0
	pusher := actions.NewHttpPusher(c19Sub, env.subID, "http://endpoint.invalid/push", &http.Client{}, env.w.Client)
	conn := actions.VerifNewPushConn(pusher)
	starts := []int{1, 2, 5, 10, 11, 50, 101, 500, 989, 990, 995, 999, 1000}
	ctx := context.Background()
	sameIDs := func(a []uuid.UUID, b []uuid.UUID) bool {
		if len(a) != len(b) {
			return false
		}
		m := map[uuid.UUID]bool{}
		for _, x := range a {
			m[x] = true
		}
		for _, x := range b {
			if !m[x] {
				return false
			}
		}
		return true
	}
	for _, start := range starts {
		for _, kind := range []string{"fast", "slow", "nack"} {
			for n := 1; n <= conn.QueueCap(); n++ {
				for _, withOthers := range []bool{false, true} {
					conn.SetWindow(start)
					conn.Flush()
					sets := map[string][]uuid.UUID{}
					push := func(k string) {
						id := uuid.New()
						sets[k] = append(sets[k], id)
						switch k {
						case "fast":
							conn.Fast(id)
						case "slow":
							conn.Slow(id)
						case "nack":
							conn.Nack(id)
						}
					}
					for i := 0; i < n; i++ {
						push(kind)
					}
					if withOthers {
						// one answer of each other kind is waiting too; whichever
						// queue Receive serves, the others must stay untouched
						for _, k := range []string{"fast", "slow", "nack"} {
							if k != kind {
								push(k)
							}
						}
					}
					req, err := conn.Receive(ctx)
					states++
					trace := []string{fmt.Sprint(start), kind, fmt.Sprint(n), fmt.Sprint(withOthers)}
					if err != nil {
						viols = append(viols, report.Viol{Property: "C19", Check: "C19/window", Rule: "receive-failed", Text: err.Error(), Trace: trace})
						continue
					}
					// which queue was served?
					served := ""
					for _, k := range []string{"fast", "slow", "nack"} {
						fw := req.Ack
						if k == "nack" {
							fw = req.Nack
						}
						other := req.Nack
						if k == "nack" {
							other = req.Ack
						}
						if len(sets[k]) > 0 && sameIDs(fw, sets[k]) && len(other) == 0 {
							served = k
						}
					}
					qf, qs, qn := conn.QueueLens()
					if served == "" {
						viols = append(viols, report.Viol{Property: "C19", Check: "C19/window", Rule: "answer-routing", Text: fmt.Sprintf("window %d, waiting answers fast=%d slow=%d failed=%d: Receive forwarded %d acks and %d nacks, which is not exactly the ids of one kind of answer", start, len(sets["fast"]), len(sets["slow"]), len(sets["nack"]), len(req.Ack), len(req.Nack)), Trace: trace})
						continue
					}
					wantLeft := map[string]int{"fast": len(sets["fast"]), "slow": len(sets["slow"]), "nack": len(sets["nack"])}
					wantLeft[served] = 0
					if qf != wantLeft["fast"] || qs != wantLeft["slow"] || qn != wantLeft["nack"] {
						viols = append(viols, report.Viol{Property: "C19", Check: "C19/window", Rule: "answer-routing", Text: fmt.Sprintf("window %d: after serving the %s answers the queues hold fast=%d slow=%d failed=%d, want %v", start, served, qf, qs, qn, wantLeft), Trace: trace})
						continue
					}
					k := len(sets[served])
					want := start
					switch served {
					case "fast":
						want = start + k
					case "slow":
						want = start - k
					case "nack":
						want = start - 10*k
					}
					if want > 1000 {
						want = 1000
					}
					if want < 1 {
						want = 1
					}
					got := conn.Window()
					got2 := got
					if req.FlowControl != nil {
						got2 = req.FlowControl.MaxMessages
					}
					if got != want || got2 != want || got < 1 || got > 1000 {
						viols = append(viols, report.Viol{Property: "C19", Check: "C19/window", Rule: "window-step", Text: fmt.Sprintf("window %d, %d %s answers: new window %d (published %d), want %d", start, k, served, got, got2, want), Trace: trace})
					}
				}
			}
		}
	}
	return viols, states
}

var _ = os.Getenv
