package checks

import (
	"context"
	"database/sql"
	"errors"
	"fmt"
	"os"
	"sort"
	"strings"
	"testing"
	"testing/synctest"
	"time"

	"github.com/google/uuid"

	"go.6river.tech/mmmbbb/actions"
	"go.6river.tech/mmmbbb/ent/subscription"
	"go.6river.tech/mmmbbb/ent/topic"

	"verif/mc/hist"
	"verif/mc/model"
	"verif/mc/report"
	"verif/mc/vsql"
	"verif/mc/world"
)

func init() { otherChecks["C09"] = runC09 }

type c09Case struct {
	name    string
	cfg     model.Cfg
	prelude []model.Op
	op      model.Op
	// ignore: columns a failed run of this operation may legitimately have moved
	ignore []string
}

func c09Cases() []c09Case {
	two := model.Cfg{Topics: []string{"T0", "TD"}, Subs: []model.SubCfg{
		{Name: "S0", Topic: "T0", Ordered: true, DLTopic: "TD", MaxAttempts: 1},
		{Name: "S1", Topic: "T0", Filter: fX},
		{Name: "SD", Topic: "TD"},
	}}
	lazy := model.Cfg{Topics: []string{"T0", "TD", "TN"}, Subs: two.Subs, LazyTopics: []string{"TN"}, Lazy: []string{"S1"}}
	backlog := []model.Op{pubN("T0", "K1", ""), pub1("T0", "", 1)}
	held := append(append([]model.Op{}, backlog...), pull("S0", 10), pull("S1", 10))
	heldDue := append(append([]model.Op{}, held...), tick("lease+"))
	pullIgn := []string{"subscriptions.expires_at"}
	cs := []c09Case{
		{"publish-1", two, nil, pub1("T0", "K1", 1), nil},
		{"publish-batch-3", two, backlog, model.Op{K: "pub", Topic: "T0", Keys: []string{"K1", "", "K1"}, Attrs: []int{1, 0, 1}}, nil},
		{"create-topic", lazy, nil, mkTopic("TN"), nil},
		{"delete-topic", two, backlog, delTopic("T0"), nil},
		{"delete-topic-with-snapshot", two, append(append([]model.Op{}, backlog...), snap("S0", "N0")), delTopic("T0"), nil},
		{"update-topic", two, nil, model.Op{K: "updateTopic", Topic: "T0"}, nil},
		{"create-subscription", lazy, backlog, mkSub("S1"), nil},
		{"delete-subscription", two, held, delSub("S0"), nil},
		{"update-subscription", two, held, model.Op{K: "updateSub", Sub: "S1"}, nil},
		{"modify-push-config", two, nil, model.Op{K: "modifyPush", Sub: "S1"}, nil},
		{"ack-one", two, held, ack("S0", "oldest"), nil},
		{"ack-all-ordered-predecessors", two, held, ack("S0", "all"), nil},
		{"nack-backoff", two, held, nack("S1", "all"), nil},
		{"nack-deadletter", two, held, nack("S0", "all"), nil},
		{"modack-zero", two, held, modack("S0", "all", 0), nil},
		{"modack-30s-two-subscriptions", two, held, modack("S0", "span", 30*time.Second), nil},
		{"modack-zero-two-subscriptions", two, held, modack("S0", "span", 0), nil},
		{"pull-empty", two, nil, pull("S0", 10), pullIgn},
		{"pull-2-messages", two, backlog, pull("S0", 10), pullIgn},
		{"pull-redelivery", two, heldDue, pull("S1", 10), pullIgn},
		{"pull-deadletter-move", two, heldDue, pull("S0", 10), pullIgn},
		{"stream-ack+nack-one-tx", two, held, model.Op{K: "acknack", Sub: "S0", Sel: "first2"}, nil},
		{"stream-ack+nack-deadletter-one-tx", two, append(append([]model.Op{}, held...), pull("S1", 10)), model.Op{K: "acknack", Sub: "S0", Sel: "span"}, nil},
		{"stream-modack-zero", two, held, model.Op{K: "streamModack", Sub: "S0", Sel: "span", D: 0}, nil},
		{"stream-modack-20s", two, held, model.Op{K: "streamModack", Sub: "S1", Sel: "all", D: 20 * time.Second}, nil},
		{"update-subscription-deadletter+retry", two, held, model.Op{K: "updateSubDL", Sub: "S1", Topic: "TD"}, nil},
		{"publish-ordered-with-predecessor", two, append(append([]model.Op{}, backlog...), pull("S0", 1)), pubN("T0", "K1", "K1"), nil},
		{"seek-time-reopen", two, append(append([]model.Op{}, held...), ack("S0", "all")), seekT("S0", "before-all"), nil},
		{"seek-time-ack", two, held, seekT("S0", "now"), nil},
		{"create-snapshot", two, append(append([]model.Op{}, held...), ack("S0", "oldest")), snap("S0", "N0"), nil},
		{"seek-snapshot", two, append(append([]model.Op{}, held...), snap("S0", "N0"), ack("S0", "all"), pub1("T0", "K1", 0)), seekS("S0", "N0"), nil},
		// the snapshot carries an ack list (a later message was acknowledged, an earlier one
		// not), and its entry is outstanding again when the seek runs: the seek then has a
		// statement of its own for the list
		{"seek-snapshot-with-ack-list", two, append(append([]model.Op{}, held...), ack("S0", "newest"), snap("S0", "N0"), seekT("S0", "before-all"), pull("S0", 10), ack("S0", "oldest")), seekS("S0", "N0"), nil},
		{"delete-snapshot", two, append(append([]model.Op{}, backlog...), snap("S0", "N0")), model.Op{K: "delSnap", Name: "N0"}, nil},
		{"deadletter-sweep", two, heldDue, sweep(), nil},
	}
	dead := append(append([]model.Op{}, held...), ack("S0", "all"), ack("S1", "all"), delSub("S1"), delTopic("TD"), tick("+2h"))
	for _, j := range model.JobNames {
		pre := dead
		if j == "delete-expired-subscriptions" {
			pre = append(append([]model.Op{}, backlog...), tick("+800h"))
		}
		if j == "prune-expired-deliveries" {
			pre = append(append([]model.Op{}, backlog...), tick("+200h"))
		}
		if j == "prune-completed-messages" || j == "prune-deleted-subscriptions" {
			pre = append(append([]model.Op{}, dead...), job("prune-completed-deliveries", 0, 100), job("prune-deleted-subscription-deliveries", 0, 100))
		}
		if j == "prune-deleted-topics" {
			pre = append(append([]model.Op{}, dead...), delSub("SD"), delSub("S0"), job("prune-completed-deliveries", 0, 100), job("prune-deleted-subscription-deliveries", 0, 100), job("prune-deleted-subscriptions", 0, 100), job("prune-completed-messages", 0, 100))
		}
		cs = append(cs, c09Case{"job-" + j, two, pre, job(j, time.Hour, 100), nil})
	}
	return cs
}

var errInjected = errors.New("verif: injected storage failure")

type awaiters struct {
	chans map[string]<-chan struct{}
	undo  []func()
}

func (w *awaitWorld) register() *awaiters {
	a := &awaiters{chans: map[string]<-chan struct{}{}}
	ctx := context.Background()
	subs, _ := w.W.Client.Subscription.Query().Where(subscription.DeletedAtIsNil()).All(ctx)
	for _, s := range subs {
		id, name := s.ID, s.Name
		pc := actions.PublishAwaiter(id)
		a.chans["publish:"+name] = pc
		a.undo = append(a.undo, func() { actions.CancelPublishAwaiter(id, pc) })
		mc := actions.SubModifiedAwaiter(id, name)
		a.chans["submodified:"+name] = mc
		a.undo = append(a.undo, func() { actions.CancelSubModifiedAwaiter(id, name, mc) })
	}
	tops, _ := w.W.Client.Topic.Query().Where(topic.DeletedAtIsNil()).All(ctx)
	for _, t := range tops {
		id, name := t.ID, t.Name
		tc := actions.TopicModifiedAwaiter(id, name)
		a.chans["topicmodified:"+name] = tc
		a.undo = append(a.undo, func() { actions.CancelTopicModifiedAwaiter(id, name, tc) })
	}
	as := actions.AnySubModifiedAwaiter()
	a.chans["anysub"] = as
	a.undo = append(a.undo, func() { actions.CancelAnySubModifiedAwaiter(as) })
	at := actions.AnyTopicModifiedAwaiter()
	a.chans["anytopic"] = at
	a.undo = append(a.undo, func() { actions.CancelAnyTopicModifiedAwaiter(at) })
	// an awaiter for a subscription id that does not exist must never fire either
	ghost := uuid.MustParse("00000000-0000-4000-8000-00000000dead")
	gc := actions.PublishAwaiter(ghost)
	a.chans["publish:ghost"] = gc
	a.undo = append(a.undo, func() { actions.CancelPublishAwaiter(ghost, gc) })
	return a
}

func (a *awaiters) fired() []string {
	var out []string
	for n, c := range a.chans {
		select {
		case <-c:
			out = append(out, n)
		default:
		}
	}
	sort.Strings(out)
	return out
}

func (a *awaiters) cancel() {
	for _, u := range a.undo {
		u()
	}
}

type awaitWorld struct{ W *world.World }

func runC09(t *testing.T, tier string) int {
	t0 := time.Now()
	sink := &violSink{}
	cases := c09Cases()
	execs, points, retries, woken := 0, 0, 0, 0
	perOp := map[string]int{}
	var samples []any
	synctest.Test(t, func(t *testing.T) {
		w, err := world.Open()
		if err != nil {
			t.Fatal(err)
		}
		defer w.Close()
		w.LogOn = true
		aw := &awaitWorld{w}
		empty := &world.Snapshot{Cols: map[string][]string{}, Rows: map[string][]world.Row{}, TakenL: time.Date(2000, 1, 1, 0, 0, 0, 0, time.UTC)}
		for _, cs := range cases {
			if only := os.Getenv("VERIF_C09_ONLY"); only != "" && only != cs.name {
				continue
			}
			if err := w.Restore(empty); err != nil {
				t.Fatal(err)
			}
			r := &hist.Runner{W: w, M: model.New(cs.cfg), Sep: time.Millisecond}
			if err := r.Setup(); err != nil {
				t.Fatalf("%s: %v", cs.name, err)
			}
			for _, op := range cs.prelude {
				en, _, obs, _ := r.Do(op)
				if !en || obs.Err != "" {
					t.Fatalf("%s: prelude %s: enabled=%v err=%s", cs.name, op.Label(), en, obs.Err)
				}
			}
			prepared, err := w.Dump()
			if err != nil {
				t.Fatal(err)
			}
			m0 := r.M.Clone()
			call, ok := r.M.Prepare(cs.op, w.Now())
			if !ok {
				t.Fatalf("%s: op %s not enabled in the prepared state", cs.name, cs.op.Label())
			}
			// fault-free reference run
			a0 := aw.register()
			w.ResetLog()
			obs := r.Exec(call)
			synctest.Wait()
			okFired := a0.fired()
			a0.cancel()
			if obs.Err != "" {
				t.Fatalf("%s: fault-free run failed: %s", cs.name, obs.Err)
			}
			var pts []vsql.Point
			for _, p := range w.Log {
				if p.Kind == vsql.Begin || p.Kind == vsql.Stmt || p.Kind == vsql.Commit {
					pts = append(pts, p)
				}
			}
			// Exec also runs the harness's own row queries: cut the log at the last commit / statement of the op itself
			pts = trimHarness(pts)
			final, err := w.Dump()
			if err != nil {
				t.Fatal(err)
			}
			if prepared.Diff(final) == "" && cs.name != "pull-empty" && !strings.HasPrefix(cs.name, "job-delete-expired") {
				t.Fatalf("%s: vacuous case: the fault-free run changes nothing", cs.name)
			}
			perOp[cs.name] = len(pts)
			if len(samples) < 4 {
				var qs []string
				for _, p := range pts {
					q := p.Kind.String()
					if p.Kind == vsql.Stmt {
						q = strings.Fields(p.Query)[0]
					}
					qs = append(qs, q)
				}
				samples = append(samples, map[string]any{"operation": cs.name, "fault_points": qs, "waiters_woken_by_success": okFired})
			}
			// txdone: the statement / commit fails with sql.ErrTxDone while the request
			// context is cancelled (what a commit that lost the race against the
			// cancellation rollback of database/sql looks like)
			kinds := []string{"error", "cancel", "txdone"}
			// (the context of a faulted run stays alive until its retry is over, like the
			// long-lived context of a background service: database/sql rolls a transaction
			// back when its context ends, which would hide one that the code left open)
			var pendingCancel context.CancelFunc
			runFaulted := func(k int, kind string) (model.Obs, []string, *world.Snapshot) {
				if pendingCancel != nil {
					pendingCancel()
					pendingCancel = nil
					synctest.Wait()
				}
				if err := w.Restore(prepared); err != nil {
					t.Fatal(err)
				}
				r.M = m0.Clone()
				ctx, cancel := context.WithCancel(context.Background())
				pendingCancel = cancel
				r.Ctx = ctx
				n := 0
				fired := false
				a := aw.register()
				w.SetExtra(func(p vsql.Point) error {
					if p.Kind != vsql.Begin && p.Kind != vsql.Stmt && p.Kind != vsql.Commit {
						return nil
					}
					if fired {
						return nil
					}
					if n == k {
						fired = true
						n++
						if kind == "cancel" {
							cancel()
							return context.Canceled
						}
						if kind == "txdone" {
							cancel()
							return fmt.Errorf("verif: %w", sql.ErrTxDone)
						}
						return errInjected
					}
					n++
					return nil
				})
				o := r.Exec(call)
				w.SetExtra(nil)
				r.Ctx = nil
				synctest.Wait()
				f := a.fired()
				a.cancel()
				after, err := w.Dump()
				if err != nil {
					t.Fatal(err)
				}
				execs++
				return o, f, after
			}
			for k := range pts {
				for _, kind := range kinds {
					points++
					desc := fmt.Sprintf("%s: fail point %d/%d (%s) with %s", cs.name, k, len(pts), pointName(pts[k]), kind)
					if os.Getenv("VERIF_VERBOSE") != "" {
						fmt.Println(desc)
					}
					o, fired, after := runFaulted(k, kind)
					if o.Err == "" {
						sink.add(report.Viol{Property: "C09", Check: "C09/" + cs.name, Rule: "fault-swallowed", Text: desc + ": the operation reported success", Trace: []string{cs.name, fmt.Sprint(k), kind}})
					}
					if d := prepared.DiffIgnoring(after, cs.ignore...); d != "" {
						sink.add(report.Viol{Property: "C09", Check: "C09/" + cs.name, Rule: "partial-effect", Text: desc + ": the operation failed (" + o.Err + ") but the tables changed:\n" + d, Trace: []string{cs.name, fmt.Sprint(k), kind}})
					}
					if len(fired) > 0 {
						woken++
						sink.add(report.Viol{Property: "C09", Check: "C09/" + cs.name, Rule: "phantom-wakeup", Text: fmt.Sprintf("%s: the operation failed (%s) but waiters were notified: %v", desc, o.Err, fired), Trace: []string{cs.name, fmt.Sprint(k), kind}})
					}
					// retry without fault: same effect as the fault-free run
					r.M = m0.Clone()
					call2, ok := r.M.Prepare(cs.op, w.Now())
					if !ok {
						sink.add(report.Viol{Property: "C09", Check: "C09/" + cs.name, Rule: "retry-impossible", Text: desc + ": retry not possible", Trace: []string{cs.name, fmt.Sprint(k), kind}})
						continue
					}
					o2 := r.Exec(call2)
					synctest.Wait()
					if os.Getenv("VERIF_VERBOSE") != "" {
						fmt.Printf("   faulted run: err=%q; retry: err=%q\n", o.Err, o2.Err)
					}
					retries++
					after2, _ := w.Dump()
					if o2.Err != "" {
						sink.add(report.Viol{Property: "C09", Check: "C09/" + cs.name, Rule: "retry-failed", Text: desc + ": the retry failed: " + o2.Err, Trace: []string{cs.name, fmt.Sprint(k), kind}})
					} else if d := final.EquivModuloIDs(after2, 50*time.Millisecond); d != "" {
						sink.add(report.Viol{Property: "C09", Check: "C09/" + cs.name, Rule: "retry-differs", Text: desc + ": after the retry the tables differ from the fault-free run: " + d, Trace: []string{cs.name, fmt.Sprint(k), kind}})
					}
					if pendingCancel != nil {
						pendingCancel()
						pendingCancel = nil
						synctest.Wait()
					}
					if tier == "thorough" && kind == "error" {
						// second fault on the retry at every point k2, then a clean retry
						for k2 := range pts {
							o3, _, after3 := runFaulted(k2, "error")
							if pendingCancel != nil {
								pendingCancel()
								pendingCancel = nil
								synctest.Wait()
							}
							points++
							if o3.Err == "" || prepared.DiffIgnoring(after3, cs.ignore...) != "" {
								sink.add(report.Viol{Property: "C09", Check: "C09/" + cs.name, Rule: "partial-effect", Text: fmt.Sprintf("%s then again at point %d: err=%q diff=%s", desc, k2, o3.Err, prepared.DiffIgnoring(after3, cs.ignore...)), Trace: []string{cs.name, fmt.Sprint(k), fmt.Sprint(k2)}})
							}
						}
					}
				}
			}
			if pendingCancel != nil {
				pendingCancel()
				pendingCancel = nil
				synctest.Wait()
			}
		}
	})
	if len(samples) == 0 {
		samples = append(samples, "none")
	}
	cov := map[string]any{
		"evaluations":                execs,
		"distinct_nontrivial":        points,
		"rule":                       "operation x index of every BEGIN / statement / COMMIT it issues x {driver error, context cancelled at that point, sql.ErrTxDone with the context cancelled}; each faulted run must report an error, leave the five tables byte-identical, wake no registered waiter, and a fault-free retry must reach the same tables as the fault-free run (modulo fresh ids, 50ms); distinct_nontrivial = distinct (operation, point, kind) triples",
		"samples":                    samples,
		"operations":                 len(cases),
		"fault_points_per_operation": perOp,
		"retries":                    retries,
		"phantom_wakeups":            woken,
		"exhaustive":                 true,
	}
	ev := report.Evidence{PropertyID: "C09", Tier: tier, Seed: report.Seed(), Level: "fault_enumeration", Coverage: cov,
		Assumptions: []string{"an injected COMMIT failure rolls the transaction back (models 'commit failed', not 'commit outcome unknown')", "a failed Pull may have committed its separate activity refresh of subscriptions.expires_at", "SQLite backend"}}
	sort.Slice(sink.list, func(i, j int) bool {
		return strings.Join(sink.list[i].Trace, "/") < strings.Join(sink.list[j].Trace, "/")
	})
	return report.Finish(ev, sink.list, t0)
}

func pointName(p vsql.Point) string {
	if p.Kind == vsql.Stmt {
		f := strings.Fields(p.Query)
		if len(f) > 3 {
			f = f[:3]
		}
		return strings.Join(f, " ")
	}
	return p.Kind.String()
}

// trimHarness drops the harness's own trailing read-only queries (Runner.rows,
// liveViews) from the statement log of an Exec.
func trimHarness(pts []vsql.Point) []vsql.Point {
	end := len(pts)
	for end > 0 {
		p := pts[end-1]
		if p.Kind == vsql.Stmt && !p.InTx && (strings.HasPrefix(p.Query, "SELECT id, completed_at IS NOT NULL") || strings.HasPrefix(p.Query, "SELECT s.name, d.message_id") || strings.HasPrefix(p.Query, "SELECT name, ''")) {
			end--
			continue
		}
		break
	}
	return pts[:end]
}

// c10CommitCancel: the request context of a WRITER ends right after one of its
// COMMITs succeeded (the client hung up, its deadline fired).  What committed is
// durable, so every waiter the fault-free run wakes must be woken all the same
// (C10: "after any committed change"), and the tables must be those of the
// fault-free run if that was the operation's last transaction.
func c10CommitCancel(t *testing.T) (int, []report.Viol) {
	var viols []report.Viol
	n := 0
	synctest.Test(t, func(t *testing.T) {
		w, err := world.Open()
		if err != nil {
			t.Fatal(err)
		}
		defer w.Close()
		aw := &awaitWorld{w}
		empty := &world.Snapshot{Cols: map[string][]string{}, Rows: map[string][]world.Row{}, TakenL: time.Date(2000, 1, 1, 0, 0, 0, 0, time.UTC)}
		for _, cs := range c09Cases() {
			if strings.HasPrefix(cs.name, "job-") || strings.HasPrefix(cs.name, "pull") {
				continue // maintenance jobs and pulls have no request context of a remote writer / are the waiters themselves
			}
			if err := w.Restore(empty); err != nil {
				t.Fatal(err)
			}
			r := &hist.Runner{W: w, M: model.New(cs.cfg), Sep: time.Millisecond}
			if err := r.Setup(); err != nil {
				t.Fatalf("%s: %v", cs.name, err)
			}
			for _, op := range cs.prelude {
				if en, _, obs, _ := r.Do(op); !en || obs.Err != "" {
					t.Fatalf("%s: prelude %s: enabled=%v err=%s", cs.name, op.Label(), en, obs.Err)
				}
			}
			prepared, err := w.Dump()
			if err != nil {
				t.Fatal(err)
			}
			m0 := r.M.Clone()
			call, ok := r.M.Prepare(cs.op, w.Now())
			if !ok {
				t.Fatalf("%s: op not enabled", cs.name)
			}
			// reference: who is woken, how many commits
			a0 := aw.register()
			commits := 0
			w.SetExtra(func(p vsql.Point) error {
				if p.Kind == vsql.Committed {
					commits++
				}
				return nil
			})
			obs := r.Exec(call)
			w.SetExtra(nil)
			synctest.Wait()
			want := a0.fired()
			a0.cancel()
			if obs.Err != "" {
				t.Fatalf("%s: fault-free run failed: %s", cs.name, obs.Err)
			}
			// the harness's own row queries commit too: only the operation's commits count
			opCommits := commits
			for k := 0; k < opCommits; k++ {
				if err := w.Restore(prepared); err != nil {
					t.Fatal(err)
				}
				r.M = m0.Clone()
				ctx, cancel := context.WithCancel(context.Background())
				r.Ctx = ctx
				seen := 0
				a := aw.register()
				w.SetExtra(func(p vsql.Point) error {
					if p.Kind == vsql.Committed {
						if seen == k {
							cancel()
						}
						seen++
					}
					return nil
				})
				_ = r.Exec(call)
				w.SetExtra(nil)
				r.Ctx = nil
				cancel()
				synctest.Wait()
				got := a.fired()
				a.cancel()
				n++
				if k == 0 {
					// everything the first commit made durable must have been announced
					// (later transactions of the same request may legitimately not run)
					missing := []string{}
					gotSet := map[string]bool{}
					for _, g := range got {
						gotSet[g] = true
					}
					for _, x := range want {
						if strings.HasPrefix(x, "publish:") && !gotSet[x] {
							missing = append(missing, x)
						}
					}
					if len(missing) > 0 && opCommits == 1 {
						viols = append(viols, report.Viol{Property: "C10", Check: "C10/context-ends-after-commit", Rule: "wake-lost-after-commit", Text: fmt.Sprintf("%s: the writer's request context ended right after its COMMIT succeeded; the change is durable but the waiters %v were not woken (the fault-free run wakes %v)", cs.name, missing, want), Trace: []string{cs.name, fmt.Sprint(k)}})
					}
				}
			}
		}
	})
	return n, viols
}
