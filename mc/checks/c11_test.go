package checks

import (
	"bytes"
	"context"
	"crypto/sha256"
	"encoding/hex"
	"encoding/json"
	"fmt"
	"io"
	"os"
	"os/exec"
	"runtime"
	"sort"
	"strings"
	"sync"
	"sync/atomic"
	"testing"
	"testing/synctest"
	"time"

	"github.com/google/uuid"

	"go.6river.tech/mmmbbb/actions"
	"go.6river.tech/mmmbbb/grpc/pubsubpb"

	"verif/mc/report"
	"verif/mc/vsql"
	"verif/mc/world"
)

func init() { otherChecks["C11"] = runC11 }

// c11Layer2 is set by the shim build (gate-level interleavings of the streamer).
var c11Layer2 func(t *testing.T, tier string, deadline time.Time) (map[string]any, []report.Viol, error)

// memConn is an in-memory actions.StreamConnection: the harness plays the
// streaming client.
type memConn struct {
	reqs   chan *actions.MessageStreamRequest
	mu     sync.Mutex
	closed bool
	onSend func(d *actions.SubscriptionMessageDelivery)
	// hold: every Send parks (the client already has the message, the server's
	// Send call has not returned yet) until the harness releases it
	hold   bool
	parked chan struct{}
	parkID string
	// share: hands an id from one scripted client to a second one
	share chan uuid.UUID
	// settle: a scripted client tells the oracle that it is about to settle these
	// (from then on they do not count as outstanding)
	settle func(ids ...uuid.UUID)
}

// release lets a parked Send return; reports whether one was parked.
func (c *memConn) release() bool {
	c.mu.Lock()
	ch := c.parked
	c.parked = nil
	c.parkID = ""
	c.mu.Unlock()
	if ch != nil {
		close(ch)
		return true
	}
	return false
}

func (c *memConn) parkedID() string {
	c.mu.Lock()
	defer c.mu.Unlock()
	return c.parkID
}

func (c *memConn) Close() error {
	c.mu.Lock()
	c.closed = true
	c.mu.Unlock()
	return nil
}

func (c *memConn) Receive(ctx context.Context) (*actions.MessageStreamRequest, error) {
	select {
	case <-ctx.Done():
		return nil, ctx.Err()
	case r, ok := <-c.reqs:
		if !ok {
			return nil, io.EOF
		}
		return r, nil
	}
}

func (c *memConn) Send(ctx context.Context, d *actions.SubscriptionMessageDelivery) error {
	c.onSend(d)
	if c.hold {
		ch := make(chan struct{})
		c.mu.Lock()
		c.parked, c.parkID = ch, d.ID.String()
		c.mu.Unlock()
		select {
		case <-ch:
		case <-ctx.Done():
			return ctx.Err()
		}
	}
	return nil
}

// c11LargeLimits: a backlog larger than the client's limit, limits below, at and
// above the streamer's per-fetch batch size; nothing is acknowledged.  Exactly
// min(limit, backlog) messages may be outstanding at quiescence.
func c11LargeLimits(t *testing.T) (int, []report.Viol) {
	var viols []report.Viol
	n := 0
	synctest.Test(t, func(t *testing.T) {
		w, err := world.Open()
		if err != nil {
			t.Fatal(err)
		}
		defer w.Close()
		w.SeqTick = false
		ctx := context.Background()
		w.Pub.CreateTopic(ctx, &pubsubpb.Topic{Name: c11Topic})
		w.Sub.CreateSubscription(ctx, &pubsubpb.Subscription{Name: c11Sub, Topic: c11Topic})
		var idStr string
		if err := w.DB.QueryRow("SELECT id FROM subscriptions").Scan(&idStr); err != nil {
			t.Fatal(err)
		}
		subID := uuid.MustParse(idStr)
		base, _ := w.Dump()
		for _, c := range []struct{ limit, backlog int }{{99, 130}, {100, 130}, {101, 130}, {150, 260}, {250, 300}} {
			if err := w.Restore(base); err != nil {
				t.Fatal(err)
			}
			for done := 0; done < c.backlog; {
				req := &pubsubpb.PublishRequest{Topic: c11Topic}
				for i := 0; i < 50 && done < c.backlog; i++ {
					req.Messages = append(req.Messages, &pubsubpb.PubsubMessage{Data: payloadOf(10)})
					done++
				}
				if _, err := w.Pub.Publish(ctx, req); err != nil {
					t.Fatal(err)
				}
			}
			var mu sync.Mutex
			out := map[string]bool{}
			peak := 0
			conn := &memConn{reqs: make(chan *actions.MessageStreamRequest)}
			conn.onSend = func(d *actions.SubscriptionMessageDelivery) {
				mu.Lock()
				out[d.ID.String()] = true
				if len(out) > peak {
					peak = len(out)
				}
				mu.Unlock()
			}
			sctx, cancel := context.WithCancel(context.Background())
			ms := &actions.MessageStreamer{Client: w.Client, SubscriptionID: &subID, SubscriptionName: c11Sub, AutomaticNack: true}
			done := make(chan error, 1)
			go func() { done <- ms.Go(sctx, conn) }()
			conn.reqs <- &actions.MessageStreamRequest{FlowControl: &actions.FlowControl{MaxMessages: c.limit, MaxBytes: 10_000_000}}
			synctest.Wait()
			n++
			mu.Lock()
			got := len(out)
			mu.Unlock()
			want := c.limit
			if c.backlog < want {
				want = c.backlog
			}
			if got > c.limit {
				viols = append(viols, report.Viol{Property: "C11", Check: "C11/large-limits", Rule: "flow-control-messages", Text: fmt.Sprintf("max outstanding messages %d, backlog %d, nothing acknowledged: %d messages were sent", c.limit, c.backlog, got), Trace: []string{fmt.Sprint(c.limit), fmt.Sprint(c.backlog)}})
			} else if got < want {
				viols = append(viols, report.Viol{Property: "C11", Check: "C11/large-limits", Rule: "stall", Text: fmt.Sprintf("max outstanding messages %d, backlog %d, nothing acknowledged: only %d messages were sent", c.limit, c.backlog, got), Trace: []string{fmt.Sprint(c.limit), fmt.Sprint(c.backlog)}})
			}
			cancel()
			select {
			case <-done:
			case <-time.After(time.Hour):
			}
			synctest.Wait()
			actions.WakeAllInternal()
		}
	})
	return n, viols
}

type c11Cfg struct {
	MaxMessages, MaxBytes int
}

// The "...InSend" events settle a message while the Send call that carries it
// has not returned yet (a client acks as soon as it has the bytes).
var c11Events = []string{"pubSmall", "pubBig", "streamAck", "streamModack0", "streamNack", "extAck", "streamAckInSend", "extAckInSend"}

const (
	c11Topic = "projects/p/topics/t"
	c11Sub   = "projects/p/subscriptions/s"
)

func payloadOf(n int) []byte { return []byte(`"` + strings.Repeat("a", n-2) + `"`) }

type c11Exec struct {
	// spun: the streamer polled the database for a whole statement budget without
	// becoming quiescent (busy loop: its strict-bytes fetch keeps finding only
	// messages that do not fit).  The polling goroutine is then parked at its next
	// transaction boundary, the state is judged like a quiescent one (after one
	// further, undisturbed budget of polls), and the execution goes on.
	spun     bool
	pauseReq atomic.Bool
	parked   atomic.Int64 // goroutines of the streamer parked at a transaction boundary
	resMu    sync.Mutex
	hol      string // first "stall-behind-oversized" observation of the execution
	diverged bool   // the replay of a prefix did not reach the state it reached before
	holAt    int    // index of the event after which it was seen (-1: stream start)
	evNo     int
	resume   chan struct{}
	w     *world.World
	cfg   c11Cfg
	base  *world.Snapshot
	subID uuid.UUID
}

type c11Out struct {
	id    string
	bytes int
}

// run replays an event sequence on a fresh streamer; it returns the violations
// found, the state key at the end and which events are enabled there.
func (x *c11Exec) run(events []string) (viols []string, key string, enabled map[string]bool, sends int, err error) {
	w := x.w
	x.spun, x.hol, x.holAt, x.evNo, x.diverged = false, "", 0, -1, false
	if err = w.Restore(x.base); err != nil {
		return
	}
	ctx, cancel := context.WithCancel(context.Background())
	x.pauseReq.Store(false)
	x.parked.Store(0)
	x.resume = make(chan struct{})
	harnessG := c11Goid()
	arm := func() {
		w.SetBudget(c11SpinBudget, func() {
			// (whichever goroutine the budget ran out in: every streamer goroutine that
			// starts a transaction from now on is parked, the polling one among them)
			x.spun = true
			x.pauseReq.Store(true)
		})
	}
	unpark := func() {
		x.resMu.Lock()
		x.pauseReq.Store(false)
		ch := x.resume
		x.resume = make(chan struct{})
		x.resMu.Unlock()
		close(ch)
	}
	w.SetExtra(func(p vsql.Point) error {
		if x.pauseReq.Load() && (p.Kind == vsql.Begin || p.Kind == vsql.Stmt && !p.InTx) && c11Goid() != harnessG {
			// (decided under the lock unpark holds: a goroutine must never wait on a channel
			// that was created after the last unpark of the execution)
			x.resMu.Lock()
			if !x.pauseReq.Load() {
				x.resMu.Unlock()
				return nil
			}
			ch := x.resume
			x.resMu.Unlock()
			x.parked.Add(1)
			<-ch
			x.parked.Add(-1)
		}
		return nil
	})
	arm()
	defer w.SetExtra(nil)
	defer w.SetBudget(0, nil)
	var out []c11Out // sent and not yet acked / nacked, in send order
	var vmu sync.Mutex
	conn := &memConn{reqs: make(chan *actions.MessageStreamRequest), hold: true}
	conn.onSend = func(d *actions.SubscriptionMessageDelivery) {
		vmu.Lock()
		defer vmu.Unlock()
		sends++
		found := false
		for _, o := range out {
			if o.id == d.ID.String() {
				found = true
			}
		}
		if !found {
			out = append(out, c11Out{d.ID.String(), len(d.Payload)})
		}
		total := 0
		for _, o := range out {
			total += o.bytes
		}
		if len(out) > x.cfg.MaxMessages {
			viols = append(viols, fmt.Sprintf("flow-control-messages: %d messages outstanding after a send, max_outstanding_messages is %d", len(out), x.cfg.MaxMessages))
		}
		if total > x.cfg.MaxBytes && len(out) != 1 {
			viols = append(viols, fmt.Sprintf("flow-control-bytes: %d bytes outstanding in %d messages after a send, max_outstanding_bytes is %d", total, len(out), x.cfg.MaxBytes))
		}
	}
	ms := &actions.MessageStreamer{Client: w.Client, SubscriptionID: &x.subID, SubscriptionName: c11Sub, AutomaticNack: true}
	done := make(chan error, 1)
	go func() { done <- ms.Go(ctx, conn) }()
	conn.reqs <- &actions.MessageStreamRequest{FlowControl: &actions.FlowControl{MaxMessages: x.cfg.MaxMessages, MaxBytes: x.cfg.MaxBytes}}
	synctest.Wait()
	bctx := context.Background()
	// settleSends: let every parked Send return (repeatedly: the sender may send more)
	settleSends := func() {
		for i := 0; i < 1000; i++ {
			synctest.Wait()
			if !conn.release() {
				return
			}
		}
	}
	quiescent := func(after string) {
		settleSends()
		if x.pauseReq.Load() {
			// busy loop: one more budget of polls during which nothing else happens
			arm()
			unpark()
			settleSends()
		}
		defer func() {
			arm()
			if x.pauseReq.Load() {
				unpark()
			}
		}()
		// liveness: capacity and an eligible message that fits ⇒ it must have been sent
		vmu.Lock()
		defer vmu.Unlock()
		total := 0
		inOut := map[string]bool{}
		for _, o := range out {
			total += o.bytes
			inOut[o.id] = true
		}
		if len(out) >= x.cfg.MaxMessages {
			return
		}
		rows, qerr := w.DB.Query("SELECT d.id, length(m.payload) FROM deliveries d JOIN messages m ON m.id=d.message_id WHERE d.subscription_id=? AND d.completed_at IS NULL AND d.attempt_at <= ? AND d.expires_at > ?", x.subID.String(), time.Now(), time.Now())
		if qerr != nil {
			err = qerr
			return
		}
		defer rows.Close()
		fits, unfit := 0, 0
		for rows.Next() {
			var id string
			var n int
			if err = rows.Scan(&id, &n); err != nil {
				return
			}
			if inOut[id] {
				continue
			}
			if len(out) == 0 || total+n <= x.cfg.MaxBytes {
				if fits == 0 {
					fits = n
				}
			} else {
				unfit++
			}
		}
		if fits > 0 {
			// (one shape is told apart: at least as many deliverable messages that do NOT
			// fit as there are free message slots - the fetch asks the database for "free
			// slots" rows only and may get nothing but those)
			rule := "stall"
			if free := x.cfg.MaxMessages - len(out); unfit >= free {
				rule = "stall-behind-oversized"
			}
			text := fmt.Sprintf("%s: after %s the client holds %d messages / %d bytes (limits %d / %d), a deliverable message of %d bytes fits (%d deliverable ones do not), but nothing was sent", rule, after, len(out), total, x.cfg.MaxMessages, x.cfg.MaxBytes, fits, unfit)
			if rule == "stall" {
				viols = append(viols, text)
			} else if x.hol == "" {
				// the listed finding: noted, and the execution goes on
				x.hol = text
				x.holAt = x.evNo
			}
		}
	}
	quiescent("stream start")
	for evNo, ev := range events {
		if len(viols) > 0 || err != nil {
			break
		}
		x.evNo = evNo
		vmu.Lock()
		var oldest string
		if len(out) > 0 {
			oldest = out[0].id
		}
		vmu.Unlock()
		settle := func() {
			vmu.Lock()
			out = out[1:]
			vmu.Unlock()
		}
		if oldest == "" && (ev == "streamAck" || ev == "streamNack" || ev == "streamModack0" || ev == "extAck") {
			// the event was enabled when this prefix was explored before, but in THIS
			// replay the client holds nothing: the two executions of the prefix differ
			// (which goroutine got how far within a statement budget is not controlled
			// in this layer). Counted, never judged.
			x.diverged = true
			break
		}
		switch ev {
		case "streamAckInSend", "extAckInSend":
			// provoke a fresh Send by publishing is not needed: re-create the window by
			// nacking nothing; instead these events act on the NEXT send: publish a small
			// message, wait until its Send is parked, settle it, then release the Send
			// two messages become deliverable at once: the first one's Send is parked,
			// the second one waits behind it (no later publish will "heal" anything)
			if _, perr := w.Pub.Publish(bctx, &pubsubpb.PublishRequest{Topic: c11Topic, Messages: []*pubsubpb.PubsubMessage{{Data: payloadOf(10)}, {Data: payloadOf(10)}}}); perr != nil {
				err = perr
				break
			}
			synctest.Wait()
			pid := conn.parkedID()
			if pid == "" {
				// flow control (correctly) holds the message back: nothing to do
				break
			}
			vmu.Lock()
			for i, o := range out {
				if o.id == pid {
					out = append(out[:i:i], out[i+1:]...)
					break
				}
			}
			vmu.Unlock()
			if ev == "streamAckInSend" {
				conn.reqs <- &actions.MessageStreamRequest{Ack: []uuid.UUID{uuid.MustParse(pid)}}
			} else if _, aerr := w.Sub.Acknowledge(bctx, &pubsubpb.AcknowledgeRequest{Subscription: c11Sub, AckIds: []string{pid}}); aerr != nil {
				err = aerr
			}
			synctest.Wait()
		case "pubSmall", "pubBig":
			n := 10
			if ev == "pubBig" {
				n = 100
			}
			if _, perr := w.Pub.Publish(bctx, &pubsubpb.PublishRequest{Topic: c11Topic, Messages: []*pubsubpb.PubsubMessage{{Data: payloadOf(n)}}}); perr != nil {
				err = perr
			}
		case "streamAck":
			settle()
			conn.reqs <- &actions.MessageStreamRequest{Ack: []uuid.UUID{uuid.MustParse(oldest)}}
		case "streamNack":
			settle()
			conn.reqs <- &actions.MessageStreamRequest{Nack: []uuid.UUID{uuid.MustParse(oldest)}}
		case "streamModack0":
			// how a gRPC client nacks: modify_deadline_seconds = 0 for the ack id
			settle()
			conn.reqs <- &actions.MessageStreamRequest{Delay: []uuid.UUID{uuid.MustParse(oldest)}, DelaySeconds: 0}
		case "extAck":
			settle()
			if _, aerr := w.Sub.Acknowledge(bctx, &pubsubpb.AcknowledgeRequest{Subscription: c11Sub, AckIds: []string{oldest}}); aerr != nil {
				err = aerr
			}
		}
		quiescent(ev)
	}
	// state key + enabled events at the end
	if err == nil {
		snap, derr := w.Dump()
		if derr != nil {
			err = derr
		} else {
			h := sha256.New()
			io.WriteString(h, snap.Canon(100*time.Millisecond, true))
			vmu.Lock()
			for _, o := range out {
				fmt.Fprintf(h, "|%d", o.bytes)
			}
			enabled = map[string]bool{"pubSmall": true, "pubBig": true, "streamAckInSend": true, "extAckInSend": true}
			if len(out) > 0 {
				enabled["streamAck"], enabled["streamModack0"], enabled["streamNack"], enabled["extAck"] = true, true, true, true
			}
			vmu.Unlock()
			key = hex.EncodeToString(h.Sum(nil)[:12])
		}
	}
	cancel()
	w.SetBudget(0, nil)
	unpark()
	select {
	case <-done:
	case <-time.After(time.Hour):
		viols = append(viols, "streamer did not stop after its context was cancelled")
	}
	synctest.Wait()
	actions.WakeAllInternal()
	return
}

// c11SpinBudget: statements the streamer may issue after an event before its polling
// goroutine is parked and the state judged.
const c11SpinBudget = 600

func c11Goid() int64 {
	var buf [64]byte
	n := runtime.Stack(buf[:], false)
	var id int64
	for _, c := range buf[len("goroutine "):n] {
		if c < '0' || c > '9' {
			break
		}
		id = id*10 + int64(c-'0')
	}
	return id
}

type c11Result struct {
	Cfg         c11Cfg
	Executions  int
	States      int
	Sends       int
	MaxDepth    int
	Complete    bool
	Spins       int
	Diverged    int
	// DepthCompleted: the largest depth whose exploration finished within the budget
	DepthCompleted int
	HeadOfLine  int
	holShown    int
	SpinExample []string
	Viols       []struct {
		Events []string
		Text   string
	}
}

// c11Worker explores all event sequences up to depth for one flow-control
// configuration (DFS, pruned on repeated quiescent states).
func c11Worker(t *testing.T) int {
	var cfg c11Cfg
	var depth int
	fmt.Sscanf(os.Getenv("VERIF_C11_WORKER"), "%d/%d/%d", &cfg.MaxMessages, &cfg.MaxBytes, &depth)
	res := c11Result{Cfg: cfg, Complete: true}
	// wall-clock budget of this worker (real time: the bubble's clock is virtual);
	// when it runs out the exploration stops and reports itself incomplete
	budget := 15 * time.Minute
	if depth > 5 {
		budget = 40 * time.Minute
	}
	if s := os.Getenv("VERIF_BUDGET"); s != "" {
		if d, err := time.ParseDuration(s); err == nil {
			budget = d
		}
	}
	deadline := report.RealNow().Add(budget)
	synctest.Test(t, func(t *testing.T) {
		w, err := world.Open()
		if err != nil {
			t.Fatal(err)
		}
		defer w.Close()
		w.SeqTick = false
		ctx := context.Background()
		if _, err := w.Pub.CreateTopic(ctx, &pubsubpb.Topic{Name: c11Topic}); err != nil {
			t.Fatal(err)
		}
		if _, err := w.Sub.CreateSubscription(ctx, &pubsubpb.Subscription{Name: c11Sub, Topic: c11Topic}); err != nil {
			t.Fatal(err)
		}
		var idStr string
		if err := w.DB.QueryRow("SELECT id FROM subscriptions").Scan(&idStr); err != nil {
			t.Fatal(err)
		}
		base, _ := w.Dump()
		x := &c11Exec{w: w, cfg: cfg, base: base, subID: uuid.MustParse(idStr)}
		seen := map[string]int{} // key -> smallest depth at which it was expanded
		limit := depth
		var rec func(prefix []string)
		rec = func(prefix []string) {
			if !res.Complete {
				return
			}
			if report.RealNow().After(deadline) {
				res.Complete = false
				return
			}
			viols, key, enabled, sends, err := x.run(prefix)
			if err != nil {
				t.Fatalf("harness: %v (events %v)", err, prefix)
			}
			res.Executions++
			res.Sends += sends
			if x.spun {
				res.Spins++
				if res.SpinExample == nil {
					res.SpinExample = append([]string{}, prefix...)
				}
			}
			if x.diverged {
				res.Diverged++
				return
			}
			if len(prefix) > res.MaxDepth {
				res.MaxDepth = len(prefix)
			}
			if x.hol != "" && len(viols) == 0 {
				res.HeadOfLine++
				// reported where it first shows (the shortest sequences come first in the DFS
				// only per branch: keep the shortest few)
				if x.holAt == len(prefix)-1 && len(res.Viols) < 20 && res.holShown < 3 {
					res.holShown++
					res.Viols = append(res.Viols, struct {
						Events []string
						Text   string
					}{append([]string{}, prefix...), x.hol})
				}
			}
			if len(viols) > 0 {
				// the same sequence must fail every time
				again, _, _, _, _ := x.run(prefix)
				if len(again) > 0 && len(res.Viols) < 20 {
					res.Viols = append(res.Viols, struct {
						Events []string
						Text   string
					}{append([]string{}, prefix...), viols[0]})
				}
				return
			}
			if d, ok := seen[key]; ok && d <= len(prefix) {
				return
			}
			seen[key] = len(prefix)
			if len(prefix) >= limit {
				return
			}
			for _, ev := range c11Events {
				if enabled[ev] {
					rec(append(append([]string{}, prefix...), ev))
				}
			}
		}
		// iterative deepening over the last level: depth-1 completely first, then the
		// full depth with what is left of the budget (a budget that runs out at depth d
		// still leaves "everything up to d-1" as a complete statement)
		limits := []int{depth}
		if depth > 5 {
			limits = []int{depth - 1, depth}
		}
		for _, l := range limits {
			limit = l
			for k := range seen {
				delete(seen, k)
			}
			res.Complete = true
			rec(nil)
			if !res.Complete {
				break
			}
			res.DepthCompleted = l
		}
		res.States = len(seen)
	})
	b, _ := json.Marshal(res)
	fmt.Printf("@@C11 %s\n", b)
	return 0
}

// replayC11 re-executes one event sequence of the event-order layer 10 times.
func replayC11(t *testing.T, tier string, v report.Viol) int {
	var cfg c11Cfg
	if _, err := fmt.Sscanf(v.Check, "C11/events messages=%d bytes=%d", &cfg.MaxMessages, &cfg.MaxBytes); err != nil {
		fmt.Fprintln(os.Stderr, "replay: only event-order violations (C11/events ...) can be replayed here:", err)
		return 2
	}
	code := 0
	synctest.Test(t, func(t *testing.T) {
		w, err := world.Open()
		if err != nil {
			t.Fatal(err)
		}
		defer w.Close()
		w.SeqTick = false
		ctx := context.Background()
		w.Pub.CreateTopic(ctx, &pubsubpb.Topic{Name: c11Topic})
		w.Sub.CreateSubscription(ctx, &pubsubpb.Subscription{Name: c11Sub, Topic: c11Topic})
		var idStr string
		if err := w.DB.QueryRow("SELECT id FROM subscriptions").Scan(&idStr); err != nil {
			t.Fatal(err)
		}
		base, _ := w.Dump()
		x := &c11Exec{w: w, cfg: cfg, base: base, subID: uuid.MustParse(idStr)}
		bad := 0
		for i := 0; i < 10; i++ {
			viols, _, _, _, err := x.run(v.Trace)
			if err != nil {
				t.Fatal(err)
			}
			if len(viols) == 0 && x.hol != "" && v.Rule == "stall-behind-oversized" {
				viols = []string{x.hol}
			}
			if len(viols) > 0 {
				bad++
				if bad == 1 {
					fmt.Println("HIT", viols[0])
				}
			}
		}
		fmt.Printf("replayed %v 10 times: %d violating runs\n", v.Trace, bad)
		if bad > 0 {
			code = 1
		}
	})
	return code
}

func init() { replayers["C11"] = replayC11 }

func runC11(t *testing.T, tier string) int {
	if os.Getenv("VERIF_C11_WORKER") != "" {
		return c11Worker(t)
	}
	t0 := time.Now()
	depth := 5
	if tier == "thorough" {
		depth = 7
	}
	if s := os.Getenv("VERIF_DEPTH"); s != "" {
		fmt.Sscanf(s, "%d", &depth)
	}
	var cfgs []c11Cfg
	for _, m := range []int{1, 2, 3} {
		for _, b := range []int{5, 10, 25, 100, 1000} {
			cfgs = append(cfgs, c11Cfg{m, b})
		}
		if m > 1 {
			// byte limits that are exactly a SUM of message sizes (10+10, 10+100): a
			// message that brings the total exactly to the limit fits
			for _, b := range []int{20, 110} {
				cfgs = append(cfgs, c11Cfg{m, b})
			}
		}
	}
	exe, _ := os.Executable()
	results := make([]*c11Result, len(cfgs))
	errs := make([]string, len(cfgs))
	sem := make(chan struct{}, nWorkers())
	var wg sync.WaitGroup
	for i, c := range cfgs {
		wg.Add(1)
		go func(i int, c c11Cfg) {
			defer wg.Done()
			sem <- struct{}{}
			defer func() { <-sem }()
			cmd := exec.Command("/bin/bash", "-c", "ulimit -v 6000000; exec timeout 3000 \"$0\" -test.run '^TestCheck$' -test.timeout 0", exe)
			cmd.Env = append(os.Environ(), "VERIF_CHECK=C11", fmt.Sprintf("VERIF_C11_WORKER=%d/%d/%d", c.MaxMessages, c.MaxBytes, depth))
			var buf bytes.Buffer
			cmd.Stdout = &buf
			cmd.Stderr = &buf
			err := cmd.Run()
			for _, line := range strings.Split(buf.String(), "\n") {
				if strings.HasPrefix(line, "@@C11 ") {
					var r c11Result
					if json.Unmarshal([]byte(strings.TrimPrefix(line, "@@C11 ")), &r) == nil {
						results[i] = &r
					}
				}
			}
			if results[i] == nil {
				tail := buf.String()
				if len(tail) > 1500 {
					tail = tail[len(tail)-1500:]
				}
				errs[i] = fmt.Sprintf("worker %v failed: %v\n%s", c, err, tail)
			}
		}(i, c)
	}
	wg.Wait()
	sink := &violSink{}
	execs, states, sends, spins, hol := 0, 0, 0, 0, 0
	allComplete := true
	depthCompleted := 1 << 30
	per := map[string]any{}
	var samples []any
	for i, r := range results {
		if r == nil {
			fmt.Fprintln(os.Stderr, "C11 harness:", errs[i])
			return 2
		}
		execs += r.Executions
		states += r.States
		sends += r.Sends
		per[fmt.Sprintf("messages=%d,bytes=%d", r.Cfg.MaxMessages, r.Cfg.MaxBytes)] = map[string]any{"executions": r.Executions, "quiescent_states": r.States, "sends_checked": r.Sends, "max_depth": r.MaxDepth, "busy_loop_executions": r.Spins, "busy_loop_example": r.SpinExample, "head_of_line_stall_executions": r.HeadOfLine, "complete": r.Complete, "diverged_replays": r.Diverged, "depth_completed": r.DepthCompleted}
		if r.DepthCompleted < depthCompleted {
			depthCompleted = r.DepthCompleted
		}
		if r.Diverged > 0 {
			allComplete = false
		}
		if !r.Complete {
			allComplete = false
			fmt.Printf("C11/events messages=%d bytes=%d: wall-clock budget reached after %d executions (depth %d NOT completed; everything explored held)\n", r.Cfg.MaxMessages, r.Cfg.MaxBytes, r.Executions, depth)
		}
		spins += r.Spins
		hol += r.HeadOfLine
		for _, v := range r.Viols {
			rule := strings.SplitN(v.Text, ":", 2)[0]
			sink.add(report.Viol{Property: "C11", Check: fmt.Sprintf("C11/events messages=%d bytes=%d", r.Cfg.MaxMessages, r.Cfg.MaxBytes), Rule: rule, Text: v.Text, Trace: v.Events})
		}
	}
	samples = append(samples, map[string]any{"flow_control": "messages=2,bytes=25", "events": []string{"pubSmall", "pubBig", "streamAck", "extAck"}})
	cov := map[string]any{
		"states":                        states,
		"transitions":                   execs,
		"traces_validated_against_impl": execs,
		"samples":                       samples,
		"exhaustive":                    allComplete,
		"depth":                         depth,
		"depth_completed_by_every_configuration": depthCompleted,
		"sends_checked":                 sends,
		"busy_loop_executions":          spins,
		"head_of_line_stall_executions": hol,
		"configurations":                per,
		"events":                        c11Events,
		"explanation":                   "for each of 15 flow-control settings: DFS over all event sequences (publish small/big, stream ack, stream nack as modify-deadline 0, stream Nack, external Acknowledge) up to the depth, each replayed on a fresh real MessageStreamer.Go with an in-memory connection and run to quiescence (synctest.Wait) after every event; pruned on repeated quiescent states; the bound is checked at every Send, the no-stall condition at every quiescent point",
	}
	// limits around the streamer's internal batch size (100 per fetch)
	ln, lv := c11LargeLimits(t)
	cov["large_limit_runs"] = ln
	for _, v := range lv {
		sink.add(v)
	}
	if c11Layer2 != nil && os.Getenv("VERIF_NO_SCHED") == "" {
		c2, v2, err := c11Layer2(t, tier, report.RealNow().Add(schedBudget(tier)))
		if err != nil {
			fmt.Fprintln(os.Stderr, "C11 harness (interleavings):", err)
			return 2
		}
		for k, v := range c2 {
			cov[k] = v
		}
		if n, ok := c2["interleaving_schedules"].(int); ok {
			cov["traces_validated_against_impl"] = execs + n
		}
		for _, v := range v2 {
			sink.add(v)
		}
	}
	if !allComplete {
		cov["exhaustive"] = false
		cov["event_layer_note"] = "at least one flow-control configuration reached its wall-clock budget before the depth was completed (see configurations[*].complete)"
	}
	ev := report.Evidence{PropertyID: "C11", Tier: tier, Seed: report.Seed(), Level: "model_checking", Coverage: cov,
		Assumptions: []string{"the gRPC streamWrapper (HTTP/2) is not in the loop", "goroutine interleavings inside one event are whatever the Go scheduler does; both oracles are schedule-independent truths", "no clock advance: lease expiry of held messages is not part of the liveness clause"}}
	sort.Slice(sink.list, func(i, j int) bool { return len(sink.list[i].Trace) < len(sink.list[j].Trace) })
	return report.Finish(ev, sink.list, t0)
}
