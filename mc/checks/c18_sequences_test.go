//go:build verifshim

package checks

import (
	"context"
	"errors"
	"fmt"
	"runtime"
	"runtime/debug"

	"google.golang.org/grpc"
	"google.golang.org/grpc/metadata"
	"google.golang.org/protobuf/proto"
	"google.golang.org/protobuf/reflect/protoreflect"

	"go.6river.tech/mmmbbb/faults"
	mbgrpc "go.6river.tech/mmmbbb/grpc"
	"go.6river.tech/mmmbbb/grpc/pubsubpb"

	"verif/mc/report"
)

// Request parameters across CALLS: a call matches only on ITS OWN string
// fields.  Every ordered pair of (entry point, request) is pushed through the
// production interceptors one after the other; a fault built from a string
// field of the first request may fail the second one only if the second one
// carries that very field value itself.

type fakeServerStream struct {
	ctx  context.Context
	next proto.Message
}

func (f *fakeServerStream) SetHeader(metadata.MD) error  { return nil }
func (f *fakeServerStream) SendHeader(metadata.MD) error { return nil }
func (f *fakeServerStream) SetTrailer(metadata.MD)       {}
func (f *fakeServerStream) Context() context.Context     { return f.ctx }
func (f *fakeServerStream) SendMsg(m any) error          { return nil }
func (f *fakeServerStream) RecvMsg(m any) error {
	proto.Reset(m.(proto.Message))
	proto.Merge(m.(proto.Message), f.next)
	return nil
}

type c18Entry struct {
	kind   string // unary | recv | send
	method string // full method
	msg    proto.Message
}

func (e c18Entry) op() string {
	_, m := splitFull(e.method)
	switch e.kind {
	case "recv":
		return m + ":RecvMsg"
	case "send":
		return m + ":SendMsg"
	}
	return m
}

func splitFull(full string) (string, string) {
	full = full[1:]
	for i := 0; i < len(full); i++ {
		if full[i] == '/' {
			return full[:i], full[i+1:]
		}
	}
	return "unknown", "unknown"
}

// run pushes one entry through the interceptors; reports whether it was failed.
func (e c18Entry) run(set *faults.Set) (bool, error) {
	ctx := context.Background()
	switch e.kind {
	case "unary":
		_, err := mbgrpc.UnaryFaultInjector(set)(ctx, e.msg, &grpc.UnaryServerInfo{FullMethod: e.method}, func(ctx context.Context, req any) (any, error) { return nil, nil })
		if err != nil && !errors.Is(err, errC18) {
			return false, err
		}
		return err != nil, nil
	default:
		var got error
		inner := &fakeServerStream{ctx: ctx, next: e.msg}
		err := mbgrpc.StreamFaultInjector(set)(nil, inner, &grpc.StreamServerInfo{FullMethod: e.method}, func(srv any, ss grpc.ServerStream) error {
			if e.kind == "recv" {
				m := e.msg.ProtoReflect().New().Interface()
				got = ss.RecvMsg(m)
			} else {
				got = ss.SendMsg(e.msg)
			}
			return nil
		})
		if err != nil && !errors.Is(err, errC18) {
			return false, err
		}
		if got != nil && !errors.Is(got, errC18) {
			return false, got
		}
		return got != nil || err != nil, nil
	}
}

func stringFields(m proto.Message) map[string]string {
	out := map[string]string{}
	m.ProtoReflect().Range(func(fd protoreflect.FieldDescriptor, v protoreflect.Value) bool {
		if fd.Kind() == protoreflect.StringKind && fd.Cardinality() != protoreflect.Repeated {
			out[fd.TextName()] = v.String()
		}
		return true
	})
	return out
}

func c18Sequences() (int, []report.Viol) {
	runtime.LockOSThread()
	defer runtime.UnlockOSThread()
	old := debug.SetGCPercent(-1)
	defer debug.SetGCPercent(old)
	const pubM, subM = "/google.pubsub.v1.Publisher/", "/google.pubsub.v1.Subscriber/"
	entries := []c18Entry{
		{"unary", pubM + "Publish", &pubsubpb.PublishRequest{Topic: "projects/p/topics/a"}},
		{"unary", pubM + "Publish", &pubsubpb.PublishRequest{Topic: "projects/p/topics/b"}},
		{"unary", pubM + "Publish", &pubsubpb.PublishRequest{}},
		{"unary", subM + "Pull", &pubsubpb.PullRequest{Subscription: "projects/p/subscriptions/s", MaxMessages: 1}},
		{"unary", subM + "Pull", &pubsubpb.PullRequest{MaxMessages: 1}},
		{"unary", subM + "Acknowledge", &pubsubpb.AcknowledgeRequest{Subscription: "projects/p/subscriptions/s", AckIds: []string{"x"}}},
		{"unary", subM + "Acknowledge", &pubsubpb.AcknowledgeRequest{AckIds: []string{"x"}}},
		{"recv", subM + "StreamingPull", &pubsubpb.StreamingPullRequest{Subscription: "projects/p/subscriptions/s", ClientId: "c1"}},
		{"recv", subM + "StreamingPull", &pubsubpb.StreamingPullRequest{Subscription: "projects/p/subscriptions/t"}},
		{"recv", subM + "StreamingPull", &pubsubpb.StreamingPullRequest{AckIds: []string{"x"}}},
		{"send", subM + "StreamingPull", &pubsubpb.StreamingPullResponse{}},
		{"unary", subM + "GetSubscription", &pubsubpb.GetSubscriptionRequest{Subscription: "projects/p/subscriptions/s"}},
		{"unary", subM + "GetSubscription", &pubsubpb.GetSubscriptionRequest{}},
	}
	n := 0
	var viols []report.Viol
	for _, first := range entries {
		for field, val := range stringFields(first.msg) {
			for _, second := range entries {
				set := faults.NewSet("verif")
				if failed, err := first.run(set); err != nil || failed {
					viols = append(viols, report.Viol{Property: "C18", Check: "C18/call-sequences", Rule: "fault-sequence", Text: fmt.Sprintf("call without any fault configured failed: %v %v", failed, err), Trace: []string{first.op(), fmt.Sprint(first.msg)}})
					continue
				}
				set.Add(faults.Description{Operation: second.op(), Parameters: map[string]string{field: val}, Count: 1, OnFault: func(faults.Description, faults.Parameters) error { return errC18 }})
				failed, err := second.run(set)
				n++
				want := stringFields(second.msg)[field] == val && hasField(second.msg, field)
				if err != nil || failed != want {
					viols = append(viols, report.Viol{Property: "C18", Check: "C18/call-sequences", Rule: "fault-sequence", Text: fmt.Sprintf("after %s %v, a fault {%s, %s=%q, count 1} was injected; the call %s %v was failed=%v (err %v), want %v: a call matches only on its own parameters", first.op(), first.msg, second.op(), field, val, second.op(), second.msg, failed, err, want), Trace: []string{first.op() + " " + fmt.Sprint(first.msg), second.op() + " " + fmt.Sprint(second.msg), field + "=" + val}})
					continue
				}
				// the count must be consumed iff the call failed
				remaining := int64(0)
				for _, l := range set.Current() {
					for _, d := range l {
						remaining += d.Count
					}
				}
				if (failed && remaining != 0) || (!failed && remaining != 1) {
					viols = append(viols, report.Viol{Property: "C18", Check: "C18/call-sequences", Rule: "fault-sequence", Text: fmt.Sprintf("call %s failed=%v but %d injections remain listed", second.op(), failed, remaining), Trace: []string{first.op(), second.op(), field}})
				}
			}
		}
	}
	// a LONG-LIVED stream: faults injected while the stream is open (it was opened
	// with an empty set) must hit its later messages, exactly count times
	for _, kind := range []string{"recv", "send"} {
		set := faults.NewSet("verif")
		op := "StreamingPull:RecvMsg"
		if kind == "send" {
			op = "StreamingPull:SendMsg"
		}
		match := &pubsubpb.StreamingPullRequest{Subscription: "projects/p/subscriptions/x"}
		other := &pubsubpb.StreamingPullRequest{Subscription: "projects/p/subscriptions/y"}
		inner := &fakeServerStream{ctx: context.Background(), next: match}
		var res []error
		call := func(ss grpc.ServerStream, m *pubsubpb.StreamingPullRequest) {
			inner.next = m
			if kind == "recv" {
				res = append(res, ss.RecvMsg(&pubsubpb.StreamingPullRequest{}))
			} else {
				res = append(res, ss.SendMsg(m))
			}
		}
		err := mbgrpc.StreamFaultInjector(set)(nil, inner, &grpc.StreamServerInfo{FullMethod: subM + "StreamingPull"}, func(srv any, ss grpc.ServerStream) error {
			call(ss, match) // 0: nothing configured
			set.Add(faults.Description{Operation: op, Parameters: map[string]string{"subscription": "projects/p/subscriptions/x"}, Count: 2, OnFault: func(faults.Description, faults.Parameters) error { return errC18 }})
			call(ss, other) // 1: does not match
			call(ss, match) // 2: fails
			call(ss, other) // 3
			call(ss, match) // 4: fails
			call(ss, match) // 5: exhausted
			return nil
		})
		n += 6
		want := []bool{false, false, true, false, true, false}
		bad := err != nil || len(res) != len(want)
		for i := range want {
			if !bad && (res[i] != nil) != want[i] {
				bad = true
			}
		}
		left := 0
		for _, l := range set.Current() {
			left += len(l)
		}
		if bad || left != 0 {
			viols = append(viols, report.Viol{Property: "C18", Check: "C18/call-sequences", Rule: "fault-sequence", Text: fmt.Sprintf("a fault {%s, subscription=x, count 2} injected while a stream was already open: its later messages x,y,x,y,x,x were failed %v (stream error %v), want exactly the 2nd and 4th matching... [false false true false true false]; %d faults still listed", op, failedList(res), err, left), Trace: []string{op, "injected mid-stream"}})
		}
	}
	return n, viols
}

func failedList(res []error) []bool {
	out := make([]bool, len(res))
	for i, e := range res {
		out[i] = e != nil
	}
	return out
}

func hasField(m proto.Message, text string) bool {
	_, ok := stringFields(m)[text]
	return ok
}
