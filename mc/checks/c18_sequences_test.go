//go:build verifshim

package checks

import (
	"context"
	"errors"
	"fmt"
	"runtime"
	"runtime/debug"

	"google.golang.org/grpc"
	"google.golang.org/grpc/metadata"
	"google.golang.org/protobuf/proto"
	"google.golang.org/protobuf/reflect/protoreflect"

	"go.6river.tech/mmmbbb/faults"
	mbgrpc "go.6river.tech/mmmbbb/grpc"
	"go.6river.tech/mmmbbb/grpc/pubsubpb"

	"verif/mc/report"
)

// Request parameters across CALLS: a call matches only on ITS OWN string
// fields.  Every ordered pair of (entry point, request) is pushed through the
// production interceptors one after the other; a fault built from a string
// field of the first request may fail the second one only if the second one
// carries that very field value itself.

type fakeServerStream struct {
	ctx  context.Context
	next proto.Message
}

func (f *fakeServerStream) SetHeader(metadata.MD) error  { return nil }
func (f *fakeServerStream) SendHeader(metadata.MD) error { return nil }
func (f *fakeServerStream) SetTrailer(metadata.MD)       {}
func (f *fakeServerStream) Context() context.Context     { return f.ctx }
func (f *fakeServerStream) SendMsg(m any) error          { return nil }
func (f *fakeServerStream) RecvMsg(m any) error {
	proto.Reset(m.(proto.Message))
	proto.Merge(m.(proto.Message), f.next)
	return nil
}

type c18Entry struct {
	kind   string // unary | recv | send
	method string // full method
	msg    proto.Message
}

func (e c18Entry) op() string {
	_, m := splitFull(e.method)
	switch e.kind {
	case "recv":
		return m + ":RecvMsg"
	case "send":
		return m + ":SendMsg"
	}
	return m
}

func splitFull(full string) (string, string) {
	full = full[1:]
	for i := 0; i < len(full); i++ {
		if full[i] == '/' {
			return full[:i], full[i+1:]
		}
	}
	return "unknown", "unknown"
}

// run pushes one entry through the interceptors; reports whether it was failed.
func (e c18Entry) run(set *faults.Set) (bool, error) {
	ctx := context.Background()
	switch e.kind {
	case "unary":
		_, err := mbgrpc.UnaryFaultInjector(set)(ctx, e.msg, &grpc.UnaryServerInfo{FullMethod: e.method}, func(ctx context.Context, req any) (any, error) { return nil, nil })
		if err != nil && !errors.Is(err, errC18) {
			return false, err
		}
		return err != nil, nil
	default:
		var got error
		inner := &fakeServerStream{ctx: ctx, next: e.msg}
		err := mbgrpc.StreamFaultInjector(set)(nil, inner, &grpc.StreamServerInfo{FullMethod: e.method}, func(srv any, ss grpc.ServerStream) error {
			if e.kind == "recv" {
				m := e.msg.ProtoReflect().New().Interface()
				got = ss.RecvMsg(m)
			} else {
				got = ss.SendMsg(e.msg)
			}
			return nil
		})
		if err != nil && !errors.Is(err, errC18) {
			return false, err
		}
		if got != nil && !errors.Is(got, errC18) {
			return false, got
		}
		return got != nil || err != nil, nil
	}
}

func stringFields(m proto.Message) map[string]string {
	out := map[string]string{}
	m.ProtoReflect().Range(func(fd protoreflect.FieldDescriptor, v protoreflect.Value) bool {
		if fd.Kind() == protoreflect.StringKind && fd.Cardinality() != protoreflect.Repeated {
			out[fd.TextName()] = v.String()
		}
		return true
	})
	return out
}

func c18Sequences() (int, []report.Viol) {
	runtime.LockOSThread()
	defer runtime.UnlockOSThread()
	old := debug.SetGCPercent(-1)
	defer debug.SetGCPercent(old)
	const pubM, subM = "/google.pubsub.v1.Publisher/", "/google.pubsub.v1.Subscriber/"
	entries := []c18Entry{
		{"unary", pubM + "Publish", &pubsubpb.PublishRequest{Topic: "projects/p/topics/a"}},
		{"unary", pubM + "Publish", &pubsubpb.PublishRequest{Topic: "projects/p/topics/b"}},
		{"unary", pubM + "Publish", &pubsubpb.PublishRequest{}},
		{"unary", subM + "Pull", &pubsubpb.PullRequest{Subscription: "projects/p/subscriptions/s", MaxMessages: 1}},
		{"unary", subM + "Pull", &pubsubpb.PullRequest{MaxMessages: 1}},
		{"unary", subM + "Acknowledge", &pubsubpb.AcknowledgeRequest{Subscription: "projects/p/subscriptions/s", AckIds: []string{"x"}}},
		{"unary", subM + "Acknowledge", &pubsubpb.AcknowledgeRequest{AckIds: []string{"x"}}},
		{"recv", subM + "StreamingPull", &pubsubpb.StreamingPullRequest{Subscription: "projects/p/subscriptions/s", ClientId: "c1"}},
		{"recv", subM + "StreamingPull", &pubsubpb.StreamingPullRequest{Subscription: "projects/p/subscriptions/t"}},
		{"recv", subM + "StreamingPull", &pubsubpb.StreamingPullRequest{AckIds: []string{"x"}}},
		{"send", subM + "StreamingPull", &pubsubpb.StreamingPullResponse{}},
		{"unary", subM + "GetSubscription", &pubsubpb.GetSubscriptionRequest{Subscription: "projects/p/subscriptions/s"}},
		{"unary", subM + "GetSubscription", &pubsubpb.GetSubscriptionRequest{}},
	}
	n := 0
	var viols []report.Viol
	for _, first := range entries {
		for field, val := range stringFields(first.msg) {
			for _, second := range entries {
				set := faults.NewSet("verif")
				if failed, err := first.run(set); err != nil || failed {
					viols = append(viols, report.Viol{Property: "C18", Check: "C18/call-sequences", Rule: "fault-sequence", Text: fmt.Sprintf("call without any fault configured failed: %v %v", failed, err), Trace: []string{first.op(), fmt.Sprint(first.msg)}})
					continue
				}
				set.Add(faults.Description{Operation: second.op(), Parameters: map[string]string{field: val}, Count: 1, OnFault: func(faults.Description, faults.Parameters) error { return errC18 }})
				failed, err := second.run(set)
				n++
				want := stringFields(second.msg)[field] == val && hasField(second.msg, field)
				if err != nil || failed != want {
					viols = append(viols, report.Viol{Property: "C18", Check: "C18/call-sequences", Rule: "fault-sequence", Text: fmt.Sprintf("after %s %v, a fault {%s, %s=%q, count 1} was injected; the call %s %v was failed=%v (err %v), want %v: a call matches only on its own parameters", first.op(), first.msg, second.op(), field, val, second.op(), second.msg, failed, err, want), Trace: []string{first.op() + " " + fmt.Sprint(first.msg), second.op() + " " + fmt.Sprint(second.msg), field + "=" + val}})
					continue
				}
				// the count must be consumed iff the call failed
				remaining := int64(0)
				for _, l := range set.Current() {
					for _, d := range l {
						remaining += d.Count
					}
				}
				if (failed && remaining != 0) || (!failed && remaining != 1) {
					viols = append(viols, report.Viol{Property: "C18", Check: "C18/call-sequences", Rule: "fault-sequence", Text: fmt.Sprintf("call %s failed=%v but %d injections remain listed", second.op(), failed, remaining), Trace: []string{first.op(), second.op(), field}})
				}
			}
		}
	}
	// a LONG-LIVED stream: faults injected while the stream is open (it was opened
	// with an empty set) must hit its later messages, exactly count times
	for _, kind := range []string{"recv", "send"} {
		set := faults.NewSet("verif")
		op := "StreamingPull:RecvMsg"
		if kind == "send" {
			op = "StreamingPull:SendMsg"
		}
		match := &pubsubpb.StreamingPullRequest{Subscription: "projects/p/subscriptions/x"}
		other := &pubsubpb.StreamingPullRequest{Subscription: "projects/p/subscriptions/y"}
		inner := &fakeServerStream{ctx: context.Background(), next: match}
		var res []error
		call := func(ss grpc.ServerStream, m *pubsubpb.StreamingPullRequest) {
			inner.next = m
			if kind == "recv" {
				res = append(res, ss.RecvMsg(&pubsubpb.StreamingPullRequest{}))
			} else {
				res = append(res, ss.SendMsg(m))
			}
		}
		err := mbgrpc.StreamFaultInjector(set)(nil, inner, &grpc.StreamServerInfo{FullMethod: subM + "StreamingPull"}, func(srv any, ss grpc.ServerStream) error {
			call(ss, match) // 0: nothing configured
			set.Add(faults.Description{Operation: op, Parameters: map[string]string{"subscription": "projects/p/subscriptions/x"}, Count: 2, OnFault: func(faults.Description, faults.Parameters) error { return errC18 }})
			call(ss, other) // 1: does not match
			call(ss, match) // 2: fails
			call(ss, other) // 3
			call(ss, match) // 4: fails
			call(ss, match) // 5: exhausted
			return nil
		})
		n += 6
		want := []bool{false, false, true, false, true, false}
		bad := err != nil || len(res) != len(want)
		for i := range want {
			if !bad && (res[i] != nil) != want[i] {
				bad = true
			}
		}
		left := 0
		for _, l := range set.Current() {
			left += len(l)
		}
		if bad || left != 0 {
			viols = append(viols, report.Viol{Property: "C18", Check: "C18/call-sequences", Rule: "fault-sequence", Text: fmt.Sprintf("a fault {%s, subscription=x, count 2} injected while a stream was already open: its later messages x,y,x,y,x,x were failed %v (stream error %v), want exactly the 2nd and 4th matching... [false false true false true false]; %d faults still listed", op, failedList(res), err, left), Trace: []string{op, "injected mid-stream"}})
		}
	}
	// OVERLAPPING calls: the only point at which two requests on one thread of control
	// can interleave inside the interceptor is between "parameters collected" and
	// "parameters checked".  A request wrapper runs a complete second call right
	// there (after Range has walked its fields).  Every (fault built from a field of
	// X or Y) x (outer X, nested Y), before and after a fault has FIRED once on
	// this thread (the pooled parameter map then went through the error path): each
	// call is judged on its own parameters, and the count drops by the failures.
	for _, warm := range []bool{false, true} {
		for _, x := range entries {
			for _, y := range entries {
				for _, src := range []c18Entry{x, y} {
					for field, val := range stringFields(src.msg) {
						for _, count := range []int64{1, 2} {
							set := faults.NewSet("verif")
							if warm {
								// a fault fires once on a unary call (and is gone)
								set.Add(faults.Description{Operation: "Publish", Parameters: map[string]string{"topic": "projects/p/topics/warm"}, Count: 1, OnFault: func(faults.Description, faults.Parameters) error { return errC18 }})
								w := c18Entry{"unary", pubM + "Publish", &pubsubpb.PublishRequest{Topic: "projects/p/topics/warm"}}
								if failed, err := w.run(set); err != nil || !failed {
									viols = append(viols, report.Viol{Property: "C18", Check: "C18/overlapping-calls", Rule: "fault-sequence", Text: fmt.Sprintf("warm-up fault did not fire: %v %v", failed, err), Trace: []string{"warm"}})
									continue
								}
							}
							// the fault is for the operation of whichever call the field came from
							set.Add(faults.Description{Operation: src.op(), Parameters: map[string]string{field: val}, Count: count, OnFault: func(faults.Description, faults.Parameters) error { return errC18 }})
							matches := func(e c18Entry) bool {
								return e.op() == src.op() && hasField(e.msg, field) && stringFields(e.msg)[field] == val
							}
							var yFailed bool
							var yErr error
							outer := x
							outer.msg = hookedProto{Message: x.msg, after: func() { yFailed, yErr = y.run(set) }}
							xFailed, xErr := outer.run(set)
							n++
							// Y runs (and takes its injection) first
							left := count
							wantY := matches(y) && left > 0
							if wantY {
								left--
							}
							wantX := matches(x) && left > 0
							if wantX {
								left--
							}
							if xErr != nil || yErr != nil || xFailed != wantX || yFailed != wantY {
								viols = append(viols, report.Viol{Property: "C18", Check: "C18/overlapping-calls", Rule: "fault-sequence", Text: fmt.Sprintf("fault {%s, %s=%q, count %d}%s; call X = %s %v with call Y = %s %v running between X's parameter collection and X's check: X failed=%v (want %v), Y failed=%v (want %v), errors %v %v", src.op(), field, val, count, map[bool]string{true: " after another fault fired once", false: ""}[warm], x.op(), x.msg, y.op(), y.msg, xFailed, wantX, yFailed, wantY, xErr, yErr), Trace: []string{x.op() + " " + fmt.Sprint(x.msg), y.op() + " " + fmt.Sprint(y.msg), field + "=" + val, fmt.Sprint(warm)}})
								continue
							}
							remaining := int64(0)
							for _, l := range set.Current() {
								for _, d := range l {
									remaining += d.Count
								}
							}
							if remaining != left {
								viols = append(viols, report.Viol{Property: "C18", Check: "C18/overlapping-calls", Rule: "fault-sequence", Text: fmt.Sprintf("overlapping calls %s / %s with fault {%s, %s=%q, count %d}: %d injections remain listed, want %d", x.op(), y.op(), src.op(), field, val, count, remaining, left), Trace: []string{x.op(), y.op(), field, fmt.Sprint(warm)}})
							}
						}
					}
				}
			}
		}
	}
	if len(viols) > 30 {
		viols = viols[:30]
	}
	return n, viols
}

// hookedProto wraps a request so that a callback runs right after the interceptor
// has walked its fields (Range), i.e. between parameter collection and check.
type hookedProto struct {
	proto.Message
	after func()
}

func (h hookedProto) ProtoReflect() protoreflect.Message {
	return hookedRefl{h.Message.ProtoReflect(), h.after}
}

type hookedRefl struct {
	protoreflect.Message
	after func()
}

func (h hookedRefl) Range(f func(protoreflect.FieldDescriptor, protoreflect.Value) bool) {
	h.Message.Range(f)
	if h.after != nil {
		h.after()
	}
}

func failedList(res []error) []bool {
	out := make([]bool, len(res))
	for i, e := range res {
		out[i] = e != nil
	}
	return out
}

func hasField(m proto.Message, text string) bool {
	_, ok := stringFields(m)[text]
	return ok
}
