package checks

import (
	"context"
	"fmt"
	"os"
	"sort"
	"strings"
	"sync"
	"testing"
	"testing/synctest"
	"time"

	"go.6river.tech/mmmbbb/actions"

	"verif/mc/hist"
	"verif/mc/model"
	"verif/mc/report"
	"verif/mc/sched"
	"verif/mc/vsql"
	"verif/mc/world"
)

// txThread is one concurrent client: a sequence of operations run in order.
type txThread struct {
	name string
	ops  []model.Op
}

// txScen is a transaction-boundary interleaving scenario (E2, tx-level gates).
type txScen struct {
	name    string
	prop    string
	cfg     model.Cfg
	prelude []model.Op
	threads []txThread
	bound   int
	// late: evaluate the oracle after the cleanup phase (time has advanced and
	// every thread has finished) instead of at the zero-time quiescent point
	late bool
	// oracle is evaluated at quiescence with ZERO virtual time elapsed since the
	// threads were started; obs[thread] are the observations of finished ops.
	oracle func(done map[string]bool, obs map[string][]model.Obs, w *world.World) string
}

// txGateHook parks labelled goroutines at transaction boundaries.
func txGateHook(p vsql.Point) error {
	label := vsql.Thread(p.Ctx)
	if label == "" {
		return nil
	}
	switch p.Kind {
	case vsql.Begin:
		sched.Gate(label, "begin", nil)
	case vsql.Committed:
		sched.Gate(label, "committed", nil)
	case vsql.RolledBack:
		sched.Gate(label, "rolledback", nil)
	case vsql.Stmt:
		if !p.InTx {
			sched.Gate(label, "stmt", nil)
		}
	}
	return nil
}

type txResult struct {
	name      string
	res       sched.Result
	confirmed []sched.Found
}

// runTxScenarios explores every scenario completely (or up to its preemption
// bound) inside one bubble.
func runTxScenarios(t *testing.T, scens []txScen, deadline time.Time) ([]txResult, error) {
	var out []txResult
	var ferr error
	synctest.Test(t, func(t *testing.T) {
		w, err := world.Open()
		if err != nil {
			ferr = err
			return
		}
		defer w.Close()
		empty := &world.Snapshot{Cols: map[string][]string{}, Rows: map[string][]world.Row{}, TakenL: time.Date(2000, 1, 1, 0, 0, 0, 0, time.UTC)}
		for _, sc := range scens {
			sc := sc
			if only := os.Getenv("VERIF_SCEN"); only != "" && only != sc.name {
				continue
			}
			// prepared state
			w.SeqTick = true
			w.SetExtra(nil)
			if err := w.Restore(empty); err != nil {
				ferr = err
				return
			}
			r0 := &hist.Runner{W: w, M: model.New(sc.cfg), Sep: time.Millisecond}
			if err := r0.Setup(); err != nil {
				ferr = fmt.Errorf("%s: %w", sc.name, err)
				return
			}
			for _, op := range sc.prelude {
				en, _, obs, hits := r0.Do(op)
				if !en || obs.Err != "" || len(hits) > 0 {
					ferr = fmt.Errorf("%s: prelude %s: enabled=%v err=%q hits=%v", sc.name, op.Label(), en, obs.Err, hits)
					return
				}
			}
			prepared, err := w.Dump()
			if err != nil {
				ferr = err
				return
			}
			m0 := r0.M.Clone()
			w.SeqTick = false
			exec := func(prefix []int, expect []sched.Point) ([]sched.Point, []int, string, error) {
				if err := w.Restore(prepared); err != nil {
					return nil, nil, "", err
				}
				m := m0.Clone()
				w.SetExtra(txGateHook)
				r := sched.NewRun()
				obs := map[string][]model.Obs{}
				var obsMu sync.Mutex // threads run concurrently in the free-running cleanup phase
				for _, th := range sc.threads {
					th := th
					// resolve the calls up front against the prepared model state
					var calls []model.Call
					for _, op := range th.ops {
						c, ok := m.Prepare(op, w.Now())
						if !ok {
							return nil, nil, "", fmt.Errorf("%s: thread %s op %s not enabled", sc.name, th.name, op.Label())
						}
						calls = append(calls, c)
					}
					r.Go(th.name, func() {
						tr := &hist.Runner{W: w, M: m, Bare: true, Ctx: vsql.WithThread(context.Background(), th.name)}
						for _, c := range calls {
							o := tr.Exec(c)
							obsMu.Lock()
							obs[th.name] = append(obs[th.name], o)
							obsMu.Unlock()
						}
					})
				}
				startT := time.Now()
				err := r.RunToQuiescence(prefix, expect)
				verdict := ""
				if err == nil {
					if el := time.Since(startT); el != 0 {
						verdict = fmt.Sprintf("harness: virtual time moved by %v during exploration", el)
					} else if !sc.late {
						done := map[string]bool{}
						for _, th := range sc.threads {
							done[th.name] = r.Done(th.name)
						}
						verdict = sc.oracle(done, obs, w)
					}
				}
				// cleanup: let everything finish in free-running mode
				r.Release()
				w.SetExtra(nil)
				for i := 0; i < 5 && !r.AllDone(); i++ {
					time.Sleep(2 * time.Minute)
					synctest.Wait()
				}
				if !r.AllDone() && err == nil {
					verdict = "VIOLATION a thread never finished even after 10 virtual minutes"
				} else if sc.late && err == nil && verdict == "" {
					done := map[string]bool{}
					for _, th := range sc.threads {
						done[th.name] = r.Done(th.name)
					}
					verdict = sc.oracle(done, obs, w)
				}
				actions.WakeAllInternal()
				r.Finish()
				return r.Points, r.Choices, verdict, err
			}
			res, err := sched.Explore(exec, sc.bound, 0, func() bool { return report.RealNow().After(deadline) })
			if err != nil {
				ferr = fmt.Errorf("%s: %w", sc.name, err)
				return
			}
			tr := txResult{name: sc.name, res: res}
			for _, v := range res.Violations {
				same := 0
				for k := 0; k < 5; k++ {
					_, _, vd, err := exec(v.Choices, nil)
					if err == nil && vd == v.Verdict {
						same++
					}
				}
				if same == 5 {
					tr.confirmed = append(tr.confirmed, v)
				} else {
					fmt.Printf("  (%s: schedule %v not reproducible %d/5; not reported)\n", sc.name, v.Choices, same)
					tr.res.Complete = false
				}
			}
			fmt.Printf("%s: schedules=%d decisions=%d complete=%v diverged=%d outcomes=%v\n", sc.name, res.Executions, res.Decisions, tr.res.Complete, res.Diverged, res.Outcomes)
			out = append(out, tr)
		}
	})
	return out, ferr
}

func txCoverage(prop string, results []txResult) (map[string]any, []report.Viol) {
	cov := map[string]any{}
	per := map[string]any{}
	total, decisions := 0, 0
	complete := true
	var samples []any
	var viols []report.Viol
	for _, r := range results {
		total += r.res.Executions
		decisions += r.res.Decisions
		complete = complete && r.res.Complete
		per[r.name] = map[string]any{"schedules": r.res.Executions, "decisions": r.res.Decisions, "complete": r.res.Complete, "diverged": r.res.Diverged, "distinct_outcomes": len(r.res.Outcomes), "outcomes": r.res.Outcomes}
		for _, s := range r.res.Samples {
			if len(samples) < 4 {
				samples = append(samples, map[string]any{"scenario": r.name, "schedule": s})
			}
		}
		for _, v := range r.confirmed {
			viols = append(viols, report.Viol{Property: prop, Check: r.name, Rule: "schedule", Text: v.Verdict, Trace: []string{fmt.Sprint(v.Choices)}})
		}
	}
	cov["schedule_scenarios"] = per
	cov["schedule_executions"] = total
	cov["schedule_decisions"] = decisions
	cov["schedules_exhaustive"] = complete
	cov["schedule_samples"] = samples
	return cov, viols
}

// ---------------------------------------------------------------------------
// C10: no lost wake-up

func pullWait(sub string) model.Op { return model.Op{K: "pull", Sub: sub, Max: 10, Tgt: "wait"} }

// streamWait: a StreamingPull that waits for its first message
func streamWait(sub string) model.Op { return model.Op{K: "streamWait", Sub: sub} }

// waiterGot: every listed waiter thread has returned and received >= 1 message.
func waiterGot(waiters ...string) func(map[string]bool, map[string][]model.Obs, *world.World) string {
	return func(done map[string]bool, obs map[string][]model.Obs, w *world.World) string {
		var bad []string
		for _, wt := range waiters {
			if !done[wt] {
				bad = append(bad, fmt.Sprintf("%s is still waiting although the change that makes a message deliverable has committed and no time has passed", wt))
				continue
			}
			o := obs[wt][len(obs[wt])-1]
			if o.Err != "" || len(o.Msgs) == 0 {
				bad = append(bad, fmt.Sprintf("%s returned err=%q with %d messages", wt, o.Err, len(o.Msgs)))
			}
		}
		// every writer must have succeeded
		for th, os := range obs {
			for _, o := range os {
				if o.Err != "" {
					bad = append(bad, fmt.Sprintf("thread %s: operation failed: %s", th, o.Err))
				}
			}
		}
		sort.Strings(bad)
		if len(bad) > 0 {
			return "VIOLATION " + strings.Join(bad, "; ")
		}
		return "ok"
	}
}

func c10Scenarios(tier string) []txScen {
	two := model.Cfg{Topics: []string{"T0"}, Subs: []model.SubCfg{{Name: "S0", Topic: "T0"}, {Name: "S1", Topic: "T0"}}}
	ord := model.Cfg{Topics: []string{"T0", "TD"}, Subs: []model.SubCfg{{Name: "S0", Topic: "T0", Ordered: true, DLTopic: "TD", MaxAttempts: 1}, {Name: "SD", Topic: "TD"}}}
	leasedBoth := []model.Op{pub1("T0", "", 0), pull("S0", 10), pull("S1", 10)}
	s := []txScen{
		{name: "C10/publish, waiter on S0", cfg: two, threads: []txThread{{"W", []model.Op{pullWait("S0")}}, {"P", []model.Op{pub1("T0", "", 0)}}}, oracle: waiterGot("W")},
		{name: "C10/publish, waiter on S1", cfg: two, threads: []txThread{{"W", []model.Op{pullWait("S1")}}, {"P", []model.Op{pub1("T0", "", 0)}}}, oracle: waiterGot("W")},
		{name: "C10/publish, waiters on both", cfg: two, threads: []txThread{{"W0", []model.Op{pullWait("S0")}}, {"W1", []model.Op{pullWait("S1")}}, {"P", []model.Op{pub1("T0", "", 0)}}}, oracle: waiterGot("W0", "W1"), bound: 2},
		{name: "C10/modack0 spanning S0+S1, waiter on S0", cfg: two, prelude: leasedBoth, threads: []txThread{{"W", []model.Op{pullWait("S0")}}, {"N", []model.Op{modack("S0", "span", 0)}}}, oracle: waiterGot("W")},
		{name: "C10/modack0 spanning S0+S1, waiter on S1", cfg: two, prelude: leasedBoth, threads: []txThread{{"W", []model.Op{pullWait("S1")}}, {"N", []model.Op{modack("S0", "span", 0)}}}, oracle: waiterGot("W")},
		{name: "C10/modack0 spanning S0+S1, waiters on both", cfg: two, prelude: leasedBoth, threads: []txThread{{"W0", []model.Op{pullWait("S0")}}, {"W1", []model.Op{pullWait("S1")}}, {"N", []model.Op{modack("S0", "span", 0)}}}, oracle: waiterGot("W0", "W1"), bound: 2},
		{name: "C10/ack of an ordered predecessor", cfg: ord, prelude: []model.Op{pubN("T0", "K1", "K1"), pull("S0", 10)}, threads: []txThread{{"W", []model.Op{pullWait("S0")}}, {"A", []model.Op{ack("S0", "oldest")}}}, oracle: waiterGot("W")},
		{name: "C10/nack dead-letters an ordered predecessor", cfg: ord, prelude: []model.Op{pubN("T0", "K1", "K1"), pull("S0", 10)}, threads: []txThread{{"W", []model.Op{pullWait("S0")}}, {"WD", []model.Op{pullWait("SD")}}, {"N", []model.Op{nack("S0", "oldest")}}}, oracle: waiterGot("W", "WD"), bound: 2},
		// ... the same when nobody is subscribed to the dead-letter topic, and when it was
		// deleted: the message is dropped, the successor is deliverable all the same
		{name: "C10/nack dead-letters an ordered predecessor, dead-letter topic without subscribers", cfg: model.Cfg{Topics: []string{"T0", "TD"}, Subs: []model.SubCfg{{Name: "S0", Topic: "T0", Ordered: true, DLTopic: "TD", MaxAttempts: 1}}},
			prelude: []model.Op{pubN("T0", "K1", "K1"), pull("S0", 10)}, threads: []txThread{{"W", []model.Op{pullWait("S0")}}, {"N", []model.Op{nack("S0", "oldest")}}}, oracle: waiterGot("W")},
		{name: "C10/nack dead-letters an ordered predecessor, dead-letter topic deleted", cfg: model.Cfg{Topics: []string{"T0", "TD"}, Subs: []model.SubCfg{{Name: "S0", Topic: "T0", Ordered: true, DLTopic: "TD", MaxAttempts: 1}}},
			prelude: []model.Op{pubN("T0", "K1", "K1"), pull("S0", 10), delTopic("TD")}, threads: []txThread{{"W", []model.Op{pullWait("S0")}}, {"N", []model.Op{nack("S0", "oldest")}}}, oracle: waiterGot("W")},
		{name: "C10/pull on the source forwards into the waiter's topic", cfg: ord, prelude: []model.Op{pub1("T0", "", 0), pull("S0", 10), tick("lease+")}, threads: []txThread{{"WD", []model.Op{pullWait("SD")}}, {"P", []model.Op{pull("S0", 10)}}}, oracle: waiterGot("WD")},
		{name: "C10/sweep forwards into the waiter's topic", cfg: ord, prelude: []model.Op{pub1("T0", "", 0), pull("S0", 10), tick("lease+")}, threads: []txThread{{"WD", []model.Op{pullWait("SD")}}, {"S", []model.Op{sweep()}}}, oracle: waiterGot("WD")},
		{name: "C10/seek re-opens a message", cfg: two, prelude: []model.Op{pub1("T0", "", 0), pull("S0", 10), ack("S0", "all")}, threads: []txThread{{"W", []model.Op{pullWait("S0")}}, {"K", []model.Op{seekT("S0", "before-all")}}}, oracle: waiterGot("W")},
		{name: "C10/seek to snapshot re-opens a message", cfg: two, prelude: []model.Op{pub1("T0", "", 0), snap("S0", "N0"), pull("S0", 10), ack("S0", "all")}, threads: []txThread{{"W", []model.Op{pullWait("S0")}}, {"K", []model.Op{seekS("S0", "N0")}}}, oracle: waiterGot("W")},
		// a seek that only ACKNOWLEDGES (snapshot taken when M1 was acked, M1 revived
		// and leased since) completes the predecessor of M2
		{name: "C10/seek to snapshot acknowledges an ordered predecessor", cfg: model.Cfg{Topics: []string{"T0"}, Subs: []model.SubCfg{{Name: "S0", Topic: "T0", Ordered: true}}},
			prelude: []model.Op{pubN("T0", "K1", "K1"), pull("S0", 10), ack("S0", "all"), snap("S0", "N0"), seekT("S0", "before-all"), pull("S0", 10)},
			threads: []txThread{{"W", []model.Op{pullWait("S0")}}, {"K", []model.Op{seekS("S0", "N0")}}}, oracle: waiterGot("W")},
		{name: "C10/publish batch to ordered subscription", cfg: ord, threads: []txThread{{"W", []model.Op{pullWait("S0")}}, {"P", []model.Op{pubN("T0", "K1", "K1", "")}}}, oracle: waiterGot("W")},
		{name: "C10/stream nack (zero deadline via the stream path)", cfg: two, prelude: leasedBoth, threads: []txThread{{"W", []model.Op{pullWait("S1")}}, {"N", []model.Op{{K: "streamModack", Sub: "S0", Sel: "span", D: 0}}}}, oracle: waiterGot("W")},
		{name: "C10/two writers: publish and ack", cfg: ord, prelude: []model.Op{pubN("T0", "K1", "K1"), pull("S0", 10)}, threads: []txThread{{"W", []model.Op{pullWait("S0")}}, {"A", []model.Op{ack("S0", "oldest")}}, {"P", []model.Op{pub1("T0", "K2", 0)}}}, oracle: waiterGot("W"), bound: 2},
	}
	for i := range s {
		s[i].prop = "C10"
		if s[i].bound == 0 {
			s[i].bound = -1
		}
		if tier == "thorough" {
			s[i].bound = -1
		}
	}
	return s
}

// c10History: lost wake-ups that need virtual time to pass before the change
// lands (E1): a publish arrives D after a blocking Pull started - after the
// Pull's retry timer for a lease (possibly extended meanwhile) has fired and it
// has re-queried and gone back to waiting.
func c10History(tier string) []*hist.Scenario {
	return []*hist.Scenario{{
		ID: "C10/publish-while-a-pull-waits", Prop: "C10", Depth: d(tier, 4, 5), Drain: true,
		Cfg: model.Cfg{Topics: []string{"T0"}, Subs: []model.SubCfg{{Name: "S0", Topic: "T0"}, {Name: "S1", Topic: "T0", Ordered: true}}},
		Alphabet: []model.Op{
			pub1("T0", "", 0), pub1("T0", "K1", 0),
			pull("S0", 10), pull("S1", 10),
			modack("S0", "all", 60*time.Second), modack("S0", "all", 0), ack("S1", "oldest"),
			tick("lease-"),
			pullWaitPub("S0", "T0", time.Second), pullWaitPub("S0", "T0", 15*time.Second), pullWaitPub("S0", "T0", 30*time.Second),
			pullWaitPub("S1", "T0", 15*time.Second),
			// ... and 5 s into the wait the holder of the leased messages extends them
			{K: "pullWaitPub", Sub: "S0", Topic: "T0", Max: 10, D: 15 * time.Second, Sel: "all"},
		},
	}}
}

// c10StreamLayer is set by the shim build: StreamingPull waiters, explored at
// the streamer's lock / transaction gates.
var c10StreamLayer func(t *testing.T, tier string, deadline time.Time) (map[string]any, []report.Viol, error)

func init() {
	histExtra["C10"] = c10History
	otherChecks["C10"] = func(t *testing.T, tier string) int {
		t0 := time.Now()
		results, err := runTxScenarios(t, c10Scenarios(tier), report.RealNow().Add(schedBudget(tier)))
		if err != nil {
			fmt.Fprintln(os.Stderr, "C10 harness:", err)
			return 2
		}
		cov, viols := txCoverage("C10", results)
		if c10StreamLayer != nil && os.Getenv("VERIF_NO_SCHED") == "" {
			c2, v2, err := c10StreamLayer(t, tier, report.RealNow().Add(schedBudget(tier)))
			if err != nil {
				fmt.Fprintln(os.Stderr, "C10 harness (stream waiters):", err)
				return 2
			}
			for k, v := range c2 {
				cov["stream_waiter_"+k] = v
			}
			if ok, _ := c2["interleavings_complete"].(bool); !ok {
				cov["schedules_exhaustive"] = false
			}
			if n, _ := c2["interleaving_schedules"].(int); n > 0 {
				cov["schedule_executions"] = cov["schedule_executions"].(int) + n
			}
			if n, _ := c2["interleaving_decisions"].(int); n > 0 {
				cov["schedule_decisions"] = cov["schedule_decisions"].(int) + n
			}
			viols = append(viols, v2...)
		}
		if os.Getenv("VERIF_NO_SCHED") == "" {
			nCC, vCC := c10CommitCancel(t)
			cov["context_ends_after_commit_runs"] = nCC
			viols = append(viols, vCC...)
		}
		if os.Getenv("VERIF_NO_HIST") == "" {
			hcov, hviol, _, rc := histPart(t, "C10", tier, c10History(tier), time.Now())
			if rc != 0 {
				return rc
			}
			cov["history_layer"] = hcov
			if ex, _ := hcov["exhaustive"].(bool); !ex {
				cov["schedules_exhaustive"] = false
			}
			viols = append(viols, hviol...)
		}
		cov["states"] = cov["schedule_decisions"]
		cov["transitions"] = cov["schedule_decisions"]
		cov["traces_validated_against_impl"] = cov["schedule_executions"]
		cov["samples"] = cov["schedule_samples"]
		cov["exhaustive"] = cov["schedules_exhaustive"]
		cov["explanation"] = "stateless DFS over all interleavings, at transaction boundaries (before BEGIN, after COMMIT/ROLLBACK, autocommit statements) of the real blocking Pull with the real writers; oracle at quiescence with zero virtual time elapsed: every waiter has returned its message"
		ev := report.Evidence{PropertyID: "C10", Tier: tier, Seed: report.Seed(), Level: "model_checking", Coverage: cov,
			Assumptions: []string{"SQLite BEGIN IMMEDIATE serialises transactions, so transaction-boundary interleavings are the complete behaviour set on this backend", "PostgreSQL statement-level interleavings are not explored (no server in the sandbox)"}}
		return report.Finish(ev, viols, t0)
	}
}

// ---------------------------------------------------------------------------
// C04 (c): concurrent pullers of one subscription never share a lease

func c04SchedScenarios(tier string) []txScen {
	one := model.Cfg{Topics: []string{"T0"}, Subs: []model.SubCfg{{Name: "S0", Topic: "T0"}}}
	noShare := func(avail int) func(map[string]bool, map[string][]model.Obs, *world.World) string {
		return func(done map[string]bool, obs map[string][]model.Obs, w *world.World) string {
			seen := map[string]string{}
			total := 0
			for th, os := range obs {
				for _, o := range os {
					if o.Err != "" {
						return fmt.Sprintf("VIOLATION puller %s failed: %s", th, o.Err)
					}
					for _, m := range o.Msgs {
						total++
						if other, dup := seen[m.AckID]; dup {
							return fmt.Sprintf("VIOLATION delivery %s (message %s, attempt %d) was handed to %s and to %s within one lease", m.AckID, m.MsgID, m.Attempt, other, th)
						}
						seen[m.AckID] = th
						if m.Attempt != 1 {
							return fmt.Sprintf("VIOLATION first delivery reported attempt %d", m.Attempt)
						}
					}
				}
			}
			for th, d := range done {
				if !d {
					return "VIOLATION puller " + th + " did not return"
				}
			}
			if total != avail {
				return fmt.Sprintf("VIOLATION %d deliveries handed out in total, %d messages were due", total, avail)
			}
			return fmt.Sprintf("ok distribution=%v", distribution(obs))
		}
	}
	s := []txScen{
		{name: "C04/2 concurrent pullers, 1 due message", cfg: one, prelude: []model.Op{pub1("T0", "", 0)}, threads: []txThread{{"A", []model.Op{pull("S0", 1)}}, {"B", []model.Op{pull("S0", 10)}}}, oracle: noShare(1), bound: -1},
		{name: "C04/2 concurrent pullers, 2 due messages", cfg: one, prelude: []model.Op{pubN("T0", "", "")}, threads: []txThread{{"A", []model.Op{pull("S0", 1)}}, {"B", []model.Op{pull("S0", 10)}}}, oracle: noShare(2), bound: -1},
		{name: "C04/3 concurrent pullers, 2 due messages", cfg: one, prelude: []model.Op{pubN("T0", "", "")}, threads: []txThread{{"A", []model.Op{pull("S0", 1)}}, {"B", []model.Op{pull("S0", 10)}}, {"C", []model.Op{pull("S0", 1)}}}, oracle: noShare(2), bound: 2},
		{name: "C04/puller racing with a redelivery puller after lease expiry", cfg: one, prelude: []model.Op{pubN("T0", "", ""), pull("S0", 1), tick("lease++")},
			threads: []txThread{{"A", []model.Op{pull("S0", 10)}}, {"B", []model.Op{pull("S0", 10)}}},
			oracle: func(done map[string]bool, obs map[string][]model.Obs, w *world.World) string {
				seen := map[string]string{}
				for th, os := range obs {
					for _, o := range os {
						for _, m := range o.Msgs {
							if other, dup := seen[m.AckID]; dup {
								return fmt.Sprintf("VIOLATION delivery %s handed to %s and %s within one lease", m.AckID, other, th)
							}
							seen[m.AckID] = th
						}
					}
				}
				if len(seen) != 2 {
					return fmt.Sprintf("VIOLATION %d deliveries handed out, 2 were due (%s)", len(seen), distribution(obs))
				}
				return "ok"
			}, bound: -1},
	}
	for i := range s {
		s[i].prop = "C04"
		s[i].late = true
		if tier == "thorough" {
			s[i].bound = -1
		}
	}
	return s
}

func distribution(obs map[string][]model.Obs) string {
	var parts []string
	for th, os := range obs {
		n := 0
		for _, o := range os {
			n += len(o.Msgs)
		}
		parts = append(parts, fmt.Sprintf("%s=%d", th, n))
	}
	sort.Strings(parts)
	return strings.Join(parts, ",")
}

// ---------------------------------------------------------------------------
// C12: racing creates of one name

func c12SchedScenarios(tier string) []txScen {
	cfg := model.Cfg{Topics: []string{"T0", "TX"}, Subs: []model.SubCfg{{Name: "S0", Topic: "T0"}, {Name: "SX", Topic: "T0"}}, LazyTopics: []string{"TX"}, Lazy: []string{"SX"}}
	exactlyOne := func(kind, path string) func(map[string]bool, map[string][]model.Obs, *world.World) string {
		return func(done map[string]bool, obs map[string][]model.Obs, w *world.World) string {
			ok, exists := 0, 0
			for th, os := range obs {
				if !done[th] {
					return "VIOLATION creator " + th + " did not return"
				}
				for _, o := range os {
					switch o.Err {
					case "":
						ok++
					case "AlreadyExists":
						exists++
					default:
						return fmt.Sprintf("VIOLATION racing create answered %q (want OK or AlreadyExists)", o.Err)
					}
				}
			}
			if ok != 1 {
				return fmt.Sprintf("VIOLATION %d of the racing creates succeeded (%d AlreadyExists)", ok, exists)
			}
			var n int
			q := map[string]string{"topic": "SELECT count(*) FROM topics WHERE name=? AND deleted_at IS NULL", "sub": "SELECT count(*) FROM subscriptions WHERE name=? AND deleted_at IS NULL", "snap": "SELECT count(*) FROM snapshots WHERE name=?"}[kind]
			if err := w.DB.QueryRow(q, path).Scan(&n); err != nil {
				return "harness: " + err.Error()
			}
			if n != 1 {
				return fmt.Sprintf("VIOLATION %d live rows named %s after the race", n, path)
			}
			return "ok"
		}
	}
	mk3 := func(op model.Op) []txThread {
		return []txThread{{"A", []model.Op{op}}, {"B", []model.Op{op}}, {"C", []model.Op{op}}}
	}
	s := []txScen{
		{name: "C12/3 racing CreateTopic of one name", cfg: cfg, threads: mk3(mkTopic("TX")), oracle: exactlyOne("topic", model.TopicPath("TX")), bound: -1},
		{name: "C12/3 racing CreateSubscription of one name", cfg: cfg, threads: mk3(mkSub("SX")), oracle: exactlyOne("sub", model.SubPath("SX")), bound: -1},
		{name: "C12/3 racing CreateSnapshot of one name", cfg: cfg, prelude: []model.Op{pub1("T0", "", 0)}, threads: mk3(snap("S0", "NX")), oracle: exactlyOne("snap", model.SnapPath("NX")), bound: -1},
		{name: "C12/create racing with delete+re-create", cfg: cfg, prelude: []model.Op{mkTopic("TX")}, threads: []txThread{{"A", []model.Op{delTopic("TX"), mkTopic("TX")}}, {"B", []model.Op{mkTopic("TX")}}},
			oracle: func(done map[string]bool, obs map[string][]model.Obs, w *world.World) string {
				var n int
				if err := w.DB.QueryRow("SELECT count(*) FROM topics WHERE name=? AND deleted_at IS NULL", model.TopicPath("TX")).Scan(&n); err != nil {
					return "harness: " + err.Error()
				}
				if n != 1 {
					return fmt.Sprintf("VIOLATION %d live topics named TX", n)
				}
				for th, os := range obs {
					for _, o := range os {
						if o.Err != "" && o.Err != "AlreadyExists" {
							return fmt.Sprintf("VIOLATION %s answered %q", th, o.Err)
						}
					}
				}
				return "ok"
			}, bound: -1},
	}
	for i := range s {
		s[i].prop = "C12"
	}
	return s
}

// ---------------------------------------------------------------------------
// C02 / C17: a subscription is re-configured while a Pull on it is waiting

// liveOn counts the not-completed delivery rows per (live) subscription name.
func liveOn(w *world.World) (map[string]int, error) {
	rows, err := w.DB.Query("SELECT s.name, COUNT(*) FROM deliveries d JOIN subscriptions s ON s.id = d.subscription_id WHERE d.completed_at IS NULL AND s.deleted_at IS NULL GROUP BY s.name")
	if err != nil {
		return nil, err
	}
	defer rows.Close()
	out := map[string]int{}
	for rows.Next() {
		var n string
		var c int
		if err := rows.Scan(&n, &c); err != nil {
			return nil, err
		}
		out[n] = c
	}
	return out, rows.Err()
}

func c02SchedScenarios(tier string) []txScen {
	cfg := model.Cfg{Topics: []string{"T0", "TD", "TE"}, Subs: []model.SubCfg{
		{Name: "S0", Topic: "T0", DLTopic: "TD", MaxAttempts: 1},
		{Name: "SD", Topic: "TD"},
		{Name: "SE", Topic: "TE"},
	}}
	// one message, delivered once (its only permitted attempt), lease running
	prelude := []model.Op{pub1("T0", "", 0), pull("S0", 10)}
	want := func(exp map[string]int, waiterGets int) func(map[string]bool, map[string][]model.Obs, *world.World) string {
		return func(done map[string]bool, obs map[string][]model.Obs, w *world.World) string {
			for th, os := range obs {
				for _, o := range os {
					if o.Err != "" {
						return fmt.Sprintf("VIOLATION thread %s: operation failed: %s", th, o.Err)
					}
				}
			}
			got, err := liveOn(w)
			if err != nil {
				return "harness: " + err.Error()
			}
			for _, n := range []string{"S0", "SD", "SE"} {
				if got[model.SubPath(n)] != exp[n] {
					return fmt.Sprintf("VIOLATION after the policy change committed and the message then became due: %d outstanding deliveries on %s, the subscription's CURRENT configuration demands %d (S0=%d SD=%d SE=%d)", got[model.SubPath(n)], n, exp[n], got[model.SubPath("S0")], got[model.SubPath("SD")], got[model.SubPath("SE")])
				}
			}
			n := 0
			for _, o := range obs["W"] {
				n += len(o.Msgs)
			}
			if n != waiterGets {
				return fmt.Sprintf("VIOLATION the waiting Pull returned %d messages, want %d under the subscription's current configuration", n, waiterGets)
			}
			return "ok"
		}
	}
	s := []txScen{
		{name: "C02/dead-letter policy re-targeted while a Pull waits", cfg: cfg, prelude: prelude,
			threads: []txThread{{"W", []model.Op{pullWait("S0")}}, {"U", []model.Op{reconfig("S0", "dl:TE"), modack("S0", "all", 0)}}},
			oracle:  want(map[string]int{"S0": 0, "SD": 0, "SE": 1}, 0), late: true, bound: -1},
		{name: "C02/dead-letter policy removed while a Pull waits", cfg: cfg, prelude: prelude,
			threads: []txThread{{"W", []model.Op{pullWait("S0")}}, {"U", []model.Op{reconfig("S0", "dl:none"), modack("S0", "all", 0)}}},
			oracle:  want(map[string]int{"S0": 1, "SD": 0, "SE": 0}, 1), late: true, bound: -1},
	}
	for i := range s {
		s[i].prop = "C02"
	}
	return s
}

func init() {
	for _, x := range []struct {
		id    string
		scens func(string) []txScen
	}{{"C02", c02SchedScenarios}, {"C04", c04SchedScenarios}, {"C12", c12SchedScenarios}} {
		x := x
		addExtra(x.id, func(t *testing.T, tier string) (map[string]any, []report.Viol, error) {
			res, err := runTxScenarios(t, x.scens(tier), report.RealNow().Add(schedBudget(tier)))
			if err != nil {
				return nil, nil, err
			}
			cov, v := txCoverage(x.id, res)
			return cov, v, nil
		})
	}
}
