package checks

import (
	"context"
	"testing"
	"testing/synctest"
	"time"

	"go.6river.tech/mmmbbb/actions"
	"go.6river.tech/mmmbbb/grpc/pubsubpb"

	"verif/mc/world"
)

func TestSmoke(t *testing.T) {
	synctest.Test(t, func(t *testing.T) {
		w, err := world.Open()
		if err != nil {
			t.Fatal(err)
		}
		defer w.Close()
		ctx := context.Background()
		t0 := time.Now()
		_, err = w.Pub.CreateTopic(ctx, &pubsubpb.Topic{Name: "projects/p/topics/t"})
		if err != nil {
			t.Fatal(err)
		}
		_, err = w.Sub.CreateSubscription(ctx, &pubsubpb.Subscription{Name: "projects/p/subscriptions/s", Topic: "projects/p/topics/t"})
		if err != nil {
			t.Fatal(err)
		}
		pr, err := w.Pub.Publish(ctx, &pubsubpb.PublishRequest{Topic: "projects/p/topics/t", Messages: []*pubsubpb.PubsubMessage{{Data: []byte(`{"a":1}`)}, {Data: []byte(`2`)}}})
		if err != nil {
			t.Fatal(err)
		}
		t.Log(pr.MessageIds)
		snap, err := w.Dump()
		if err != nil {
			t.Fatal(err)
		}
		t.Log("\n" + snap.Canon(100*time.Millisecond, true))
		pl, err := w.Sub.Pull(ctx, &pubsubpb.PullRequest{Subscription: "projects/p/subscriptions/s", MaxMessages: 10, ReturnImmediately: true})
		if err != nil {
			t.Fatal(err)
		}
		t.Log(len(pl.ReceivedMessages), time.Since(t0))
		w.Tick(5 * time.Second)
		pl, err = w.Sub.Pull(ctx, &pubsubpb.PullRequest{Subscription: "projects/p/subscriptions/s", MaxMessages: 10})
		t.Log(len(pl.ReceivedMessages), err, time.Since(t0))
		s2, _ := w.Dump()
		t.Log("\n" + s2.Canon(100*time.Millisecond, true))
		if err := w.Restore(snap); err != nil {
			t.Fatal(err)
		}
		s3, _ := w.Dump()
		if d := snap.Diff(s3); d != "" {
			t.Fatal("restore diff:\n" + d)
		}
		t.Log("logical now after restore", w.Now(), "virtual", time.Now())
		pl, err = w.Sub.Pull(ctx, &pubsubpb.PullRequest{Subscription: "projects/p/subscriptions/s", MaxMessages: 10, ReturnImmediately: true})
		t.Log(len(pl.ReceivedMessages), err)
		n, err := w.Jobs["prune-completed-deliveries"].Run(ctx, w.Client, actions.PruneCommonParams{MinAge: 0, MaxDelete: 10})
		t.Log(n, err)
	})
}
