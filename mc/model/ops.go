package model

import (
	"fmt"
	"sort"
	"strings"
	"time"
)

// Op is an abstract operation of an alphabet; Prepare resolves it against the
// current model state into a concrete Call (or reports that it is not enabled).
type Op struct {
	K      string
	Topic  string
	Sub    string
	Keys   []string // pub: ordering key per message
	Attrs  []int    // pub: attribute preset per message
	Max    int      // pull / sweep
	Sel    string   // ack id selector
	D      time.Duration
	Tgt    string // seek / tick target
	Name   string // snapshot
	Job    string
	MinAge time.Duration
	MaxDel int
}

func (o Op) Label() string {
	switch o.K {
	case "pub":
		parts := make([]string, len(o.Keys))
		for i := range o.Keys {
			k := o.Keys[i]
			if k == "" {
				k = "-"
			}
			parts[i] = fmt.Sprintf("%s/a%d", k, o.Attrs[i])
		}
		return fmt.Sprintf("pub%s(%s,%s)", o.Tgt, o.Topic, strings.Join(parts, "+"))
	case "pull":
		return fmt.Sprintf("pull%s(%s,%d)", o.Tgt, o.Sub, o.Max)
	case "ack", "nack", "acknack":
		return fmt.Sprintf("%s(%s,%s)", o.K, o.Sub, o.Sel)
	case "updateSub", "modifyPush", "updateSubDL":
		return fmt.Sprintf("%s(%s)", o.K, o.Sub)
	case "reconfig":
		return fmt.Sprintf("reconfig(%s,%s)", o.Sub, o.Tgt)
	case "stream":
		return fmt.Sprintf("stream(%s,%s,%s)", o.Sub, o.Tgt, o.Sel)
	case "streamModack":
		return fmt.Sprintf("streamModack(%s,%s,%v)", o.Sub, o.Sel, o.D)
	case "streamWait":
		return fmt.Sprintf("streamWait(%s)", o.Sub)
	case "pullWaitPub":
		if o.Sel != "" {
			return fmt.Sprintf("pullWaitPub(%s,%s,%v,extend-%s)", o.Sub, o.Topic, o.D, o.Sel)
		}
		return fmt.Sprintf("pullWaitPub(%s,%s,%v)", o.Sub, o.Topic, o.D)
	case "updateTopic":
		return fmt.Sprintf("%s(%s)", o.K, o.Topic)
	case "modack":
		return fmt.Sprintf("modack(%s,%s,%v)", o.Sub, o.Sel, o.D)
	case "sweepDL":
		return fmt.Sprintf("sweepDL(%d)", o.Max)
	case "seekT":
		return fmt.Sprintf("seekT(%s,%s)", o.Sub, o.Tgt)
	case "snap":
		return fmt.Sprintf("snap(%s,%s)", o.Sub, o.Name)
	case "seekS":
		return fmt.Sprintf("seekS(%s,%s)", o.Sub, o.Name)
	case "createTopic", "deleteTopic", "getTopic":
		return fmt.Sprintf("%s(%s)", o.K, o.Topic)
	case "createSub":
		return fmt.Sprintf("%s(%s%s)", o.K, o.Sub, o.Tgt)
	case "deleteSub", "getSub":
		return fmt.Sprintf("%s(%s)", o.K, o.Sub)
	case "getSnap", "delSnap":
		return fmt.Sprintf("%s(%s)", o.K, o.Name)
	case "listTopics", "listSubs", "listSnaps":
		return fmt.Sprintf("%s(%s,%d)", o.K, o.Tgt, o.Max)
	case "listTopicSubs":
		return fmt.Sprintf("%s(%s,%d)", o.K, o.Topic, o.Max)
	case "job":
		return fmt.Sprintf("job(%s,%v,%d)", o.Job, o.MinAge, o.MaxDel)
	case "tick":
		return fmt.Sprintf("tick(%s)", o.Tgt)
	}
	return o.K
}

const UnknownAckID = "00000000-0000-4000-8000-00000000beef"

const (
	beforeMargin = 1500 * time.Millisecond
	afterMargin  = 500 * time.Millisecond
	cleanMargin  = 400 * time.Millisecond
)

// windows returns every deadline window that matters at or after now.
func (m *Model) windows(now time.Time) []Iv {
	var ws []Iv
	for _, s := range m.Subs {
		if s.Live {
			ws = append(ws, s.Activity.Add(s.Cfg.TTLOrDefault()))
		}
		for _, d := range s.Dels {
			if d.State == Unknown {
				continue // its fate is open anyway
			}
			if d.State == Acked || d.State == DeadLettered {
				// retention of retired rows still matters to seeks and prunes
				ws = append(ws, d.Exp)
				continue
			}
			ws = append(ws, d.Due, d.Exp)
		}
	}
	return ws
}

func (m *Model) cleanAt(t time.Time, ws []Iv) bool {
	for _, w := range ws {
		if !t.Before(w.Lo.Add(-cleanMargin)) && !t.After(w.Hi.Add(cleanMargin)) {
			return false
		}
	}
	return true
}

// tickTarget resolves a tick descriptor to a logical instant.
func (m *Model) tickTarget(tgt string, now time.Time) (time.Time, bool) {
	ws := m.windows(now)
	var cands []time.Time
	add := func(t time.Time) {
		if t.After(now.Add(cleanMargin)) {
			cands = append(cands, t)
		}
	}
	switch tgt {
	case "lease-", "lease+", "lease++":
		for _, s := range m.Subs {
			if !s.Live {
				continue
			}
			for _, d := range s.Dels {
				if d.State != Outstanding {
					continue
				}
				if tgt == "lease-" {
					add(d.Due.Lo.Add(-beforeMargin))
				} else {
					add(d.Due.Hi.Add(afterMargin))
				}
			}
		}
	case "ret-", "ret+":
		for _, s := range m.Subs {
			for _, d := range s.Dels {
				if d.State == Unknown {
					continue
				}
				if tgt == "ret-" {
					add(d.Exp.Lo.Add(-beforeMargin))
				} else {
					add(d.Exp.Hi.Add(afterMargin))
				}
			}
		}
	case "ttl-", "ttl+":
		for _, s := range m.Subs {
			if !s.Live {
				continue
			}
			w := s.Activity.Add(s.Cfg.TTLOrDefault())
			if tgt == "ttl-" {
				add(w.Lo.Add(-beforeMargin))
			} else {
				add(w.Hi.Add(afterMargin))
			}
		}
	default:
		d, err := time.ParseDuration(strings.TrimPrefix(tgt, "+"))
		if err != nil {
			panic("bad tick target " + tgt)
		}
		t := now.Add(d)
		for i := 0; i < 50 && !m.cleanAt(t, ws); i++ {
			t = t.Add(2 * time.Second)
		}
		if !m.cleanAt(t, ws) {
			return time.Time{}, false
		}
		return t, true
	}
	sort.Slice(cands, func(i, j int) bool { return cands[i].Before(cands[j]) })
	if tgt == "lease++" {
		// past the last lease end: everything currently leased is due afterwards
		if len(cands) == 0 {
			return time.Time{}, false
		}
		t := cands[len(cands)-1]
		for i := 0; i < 200 && !m.cleanAt(t, ws); i++ {
			t = t.Add(250 * time.Millisecond)
		}
		return t, m.cleanAt(t, ws)
	}
	for _, c := range cands {
		if m.cleanAt(c, ws) {
			return c, true
		}
	}
	return time.Time{}, false
}

func (m *Model) selectIDs(s *Sub, sel string) ([]string, bool) {
	switch sel {
	case "oldest":
		if len(s.Held) == 0 {
			return nil, false
		}
		return []string{s.Held[0]}, true
	case "newest":
		if len(s.Held) < 2 {
			return nil, false
		}
		return []string{s.Held[len(s.Held)-1]}, true
	case "all":
		if len(s.Held) == 0 {
			return nil, false
		}
		return append([]string(nil), s.Held...), true
	case "stale":
		if len(s.Done) == 0 {
			return nil, false
		}
		return []string{s.Done[0]}, true
	case "unknown":
		return []string{UnknownAckID}, true
	case "dup":
		if len(s.Held) == 0 {
			return nil, false
		}
		return []string{s.Held[0], s.Held[0]}, true
	case "mixed":
		if len(s.Held) == 0 || len(s.Done) == 0 {
			return nil, false
		}
		return []string{s.Done[0], UnknownAckID, s.Held[0]}, true
	case "span":
		// the oldest held id of every subscription that holds one
		var ids []string
		for _, n := range m.subNames() {
			if o := m.Subs[n]; len(o.Held) > 0 {
				ids = append(ids, o.Held[0])
			}
		}
		return ids, len(ids) >= 2
	case "first2":
		if len(s.Held) < 2 {
			return nil, false
		}
		return []string{s.Held[0], s.Held[1]}, true
	case "foreign":
		for _, n := range m.subNames() {
			o := m.Subs[n]
			if o != s && len(o.Held) > 0 {
				return []string{o.Held[0]}, true
			}
		}
		return nil, false
	}
	panic("bad selector " + sel)
}

// Prepare resolves op; ok=false means the op is not enabled in this state.
func (m *Model) Prepare(op Op, now time.Time) (Call, bool) {
	c := Call{Op: op}
	switch op.K {
	case "pub":
		for i := range op.Keys {
			c.Payload = append(c.Payload, []byte(fmt.Sprintf(`{"n":%d}`, m.NPub+i+1)))
			c.MsgAttrs = append(c.MsgAttrs, AttrPresets[op.Attrs[i]])
		}
		return c, true
	case "pull":
		return c, true
	case "updateSub", "modifyPush", "updateTopic", "updateSubDL", "reconfig":
		return c, true
	case "streamWait":
		return c, m.liveSub(op.Sub) != nil
	case "pullWaitPub":
		c.Payload = [][]byte{[]byte(fmt.Sprintf(`{"n":%d}`, m.NPub+1))}
		c.MsgAttrs = []map[string]string{nil}
		if s := m.liveSub(op.Sub); s != nil && op.Sel != "" {
			// D/3 into the wait another client extends the leases it holds by 60 s
			ids, ok := m.selectIDs(s, op.Sel)
			if !ok {
				return c, false
			}
			c.AckIDs = ids
		}
		return c, m.liveSub(op.Sub) != nil && m.liveTopic(op.Topic) != nil
	case "stream":
		s := m.liveSub(op.Sub)
		if s == nil {
			return c, false
		}
		if op.Tgt == "plain" {
			return c, true
		}
		if op.Tgt == "ack-seek-ack" {
			c.Time = now.Add(-1000 * time.Hour)
			return c, true
		}
		ids, ok := m.selectIDs(s, op.Sel)
		c.AckIDs = ids
		return c, ok
	case "ack", "modack", "nack", "acknack", "streamModack":
		s := m.Subs[op.Sub]
		if s == nil {
			return c, false
		}
		ids, ok := m.selectIDs(s, op.Sel)
		c.AckIDs = ids
		return c, ok
	case "sweepDL":
		for _, s := range m.Subs {
			if s.Live && m.hasDL(s) {
				return c, true
			}
		}
		return c, false
	case "seekT":
		s := m.liveSub(op.Sub)
		if s == nil {
			return c, false
		}
		switch {
		case op.Tgt == "before-all":
			c.Time = now.Add(-1000 * time.Hour)
			return c, true
		case op.Tgt == "now":
			c.Time = now
			return c, true
		case op.Tgt == "future":
			c.Time = now.Add(time.Hour)
			return c, true
		case strings.HasPrefix(op.Tgt, "after-"):
			var k int
			fmt.Sscanf(op.Tgt, "after-%d", &k)
			if k >= len(s.Dels) {
				return c, false
			}
			c.Time = s.Dels[k].Enq.Hi.Add(500 * time.Microsecond)
			return c, true
		case strings.HasPrefix(op.Tgt, "exact-"):
			var k int
			fmt.Sscanf(op.Tgt, "exact-%d", &k)
			if k >= len(s.Dels) || s.Dels[k].Forwarded || m.Msgs[s.Dels[k].Msg].PubExact.IsZero() {
				return c, false
			}
			c.Time = m.Msgs[s.Dels[k].Msg].PubExact
			return c, true
		}
		panic("bad seek target " + op.Tgt)
	case "snap":
		return c, m.liveSub(op.Sub) != nil
	case "seekS":
		return c, m.liveSub(op.Sub) != nil && m.Snaps[op.Name] != nil
	case "job":
		if op.Job == "delete-expired-subscriptions" {
			// not while the clock is inside a subscription's TTL window: the sweep's
			// verdict there is neither "must stay" nor "must go" (harness rule ttl-unclean)
			for _, s := range m.Subs {
				if !s.Live {
					continue
				}
				w := s.Activity.Add(s.Cfg.TTLOrDefault())
				if !now.Before(w.Lo.Add(-cleanMargin)) && !now.After(w.Hi.Add(cleanMargin)) {
					return c, false
				}
			}
		}
		return c, true
	case "createTopic", "deleteTopic", "createSub", "deleteSub",
		"getTopic", "getSub", "getSnap", "delSnap", "listTopics", "listSubs", "listSnaps", "listTopicSubs":
		return c, true
	case "tick":
		t, ok := m.tickTarget(op.Tgt, now)
		c.Time = t
		return c, ok
	}
	panic("unknown op " + op.K)
}
