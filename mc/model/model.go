// Package model is the reference model of the client-visible Pub/Sub semantics
// the properties talk about.  It is deliberately boring: maps and slices, no
// SQL.  Every operation the explorer performs on the real code is also applied
// here; the model says which responses are allowed (must / may / must-not) and
// every disagreement is a rule hit tagged with the properties that own the rule.
//
// Time: the model only ever sees LOGICAL instants (world.Now()).  An instant the
// system chose internally (a publish time, a lease start) is only known to lie
// inside the [t0,t1] interval of the call that produced it, so it is held as an
// interval Iv.  The explorer keeps every operation ≥ 0.4 s away from every
// deadline ("clean times"), so interval width (µs) never decides a verdict.
package model

import (
	"bytes"
	"encoding/json"
	"fmt"
	"math"
	"sort"
	"strings"
	"time"

	"verif/mc/filt"
)

type Iv struct{ Lo, Hi time.Time }

func (iv Iv) Add(d time.Duration) Iv { return Iv{iv.Lo.Add(d), iv.Hi.Add(d)} }
func (iv Iv) Zero() bool             { return iv.Lo.IsZero() && iv.Hi.IsZero() }

// Rel is the position of a call interval relative to a deadline interval.
type Rel int

const (
	Before Rel = iota // the whole call lies before the deadline
	Inside            // cannot tell
	After             // the whole call lies at/after the deadline
)

func rel(call Iv, deadline Iv) Rel {
	if call.Hi.Before(deadline.Lo) {
		return Before
	}
	if !call.Lo.Before(deadline.Hi) {
		return After
	}
	return Inside
}

type DelState int

const (
	Outstanding DelState = iota
	Acked
	DeadLettered
	Unknown // the properties leave its fate open (see DESIGN: don't-cares)
)

func (s DelState) String() string {
	return [...]string{"outstanding", "acked", "deadlettered", "unknown"}[s]
}

type SubCfg struct {
	Name        string // short name, e.g. "S0"
	Topic       string // short topic name
	Filter      *filt.Node
	Ordered     bool
	MinBackoff  time.Duration
	MaxBackoff  time.Duration
	DLTopic     string
	MaxAttempts int // 0 = no dead-letter policy
	Retention   time.Duration
	TTL         time.Duration
	Delay       time.Duration
}

const (
	DefaultRetention = 7 * 24 * time.Hour
	DefaultTTL       = 30 * 24 * time.Hour
	DefaultMinDelay  = 10 * time.Second
	DefaultMaxDelay  = 10 * time.Minute
	Jitter           = time.Second
)

func (c SubCfg) RetentionOrDefault() time.Duration {
	if c.Retention > 0 {
		return c.Retention
	}
	return DefaultRetention
}
func (c SubCfg) TTLOrDefault() time.Duration {
	if c.TTL > 0 {
		return c.TTL
	}
	return DefaultTTL
}

// Nominal is the documented backoff after the n-th delivery.
func (c SubCfg) Nominal(n int) time.Duration {
	min, max := DefaultMinDelay, DefaultMaxDelay
	if c.MinBackoff > 0 {
		min = c.MinBackoff
	}
	if c.MaxBackoff > 0 {
		max = c.MaxBackoff
	}
	d := math.Pow(1.1, float64(n)) * min.Seconds()
	if d > max.Seconds() {
		d = max.Seconds()
	}
	return time.Duration(d * float64(time.Second))
}

type Cfg struct {
	Topics []string
	Subs   []SubCfg
	// Alt: alternative configuration used by createSub(..., Tgt "alt")
	Alt []SubCfg
	// Lazy: subscriptions that exist only in the alphabet (not created by Setup)
	Lazy []string
	// LazyTopics: likewise for topics
	LazyTopics []string
}

type Topic struct {
	Name string
	Live bool
	Gen  int
}

type Msg struct {
	ID    string
	Data  []byte
	Attrs map[string]string
	Key   string
	Topic string
	TGen  int
	Pub   Iv
	// PubExact is learnt from a Pull response (publish_time), zero until then
	PubExact time.Time
}

type Del struct {
	Msg      int
	AckID    string
	State    DelState
	Attempts int
	Enq      Iv
	Due      Iv
	Exp      Iv
	// MaybePruned: a maintenance job that was entitled to delete the row has run
	// since it was retired; a later seek may or may not find it.
	MaybePruned bool
	RetiredAt   Iv // when it became Acked / DeadLettered (for prune ages)
	Forwarded   bool
	// Leased: it has been handed out and the lease was not cut short by a
	// nack / zero deadline / seek.  Only used to name the rule that fires.
	Leased bool
}

type Sub struct {
	Cfg   SubCfg
	Live  bool
	Gen   int
	TGen  int // generation of the topic it is attached to
	DLGen int
	Dels  []*Del
	// TTL clock: expires when now > Activity + TTL
	Activity Iv
	// Reconf: an UpdateSubscription changed a duration of this subscription (what
	// goes wrong with it afterwards is also C17's "what is enforced")
	Reconf    bool
	DeletedAt Iv
	// Held: ack ids the client received and has not acked, in receive order
	Held []string
	// Done: ack ids the client has acked (for "stale" selectors)
	Done []string
}

type Snap struct {
	Name    string
	Sub     string
	SubGen  int
	Topic   string
	TGen    int
	At      Iv
	Unacked map[int]bool // message indexes unacknowledged on Sub when taken
	// Known: messages that existed on the topic when the snapshot was taken
	NMsgs int
	// MaybeGone: its (deleted) topic may have been reclaimed by a maintenance job, and the snapshot with it
	MaybeGone bool
}

type Model struct {
	Cfg    Cfg
	Topics map[string]*Topic
	Subs   map[string]*Sub
	// Old generations of deleted-and-recreated subscriptions: their deliveries
	// must never surface again.
	Msgs   []*Msg
	MsgIdx map[string]int
	Snaps  map[string]*Snap
	NPub   int // payload counter
	NSnap  int
	Steps  int
}

type Hit struct {
	Rule  string
	Props []string
	Text  string
	// Sub: the subscription the hit is about ("" if none)
	Sub string
}

func (h Hit) String() string { return fmt.Sprintf("%s %v: %s", h.Rule, h.Props, h.Text) }

func hitOn(sub, rule string, props []string, f string, a ...any) Hit {
	h := hit(rule, props, f, a...)
	h.Sub = sub
	return h
}

func hit(rule string, props []string, f string, a ...any) Hit {
	return Hit{Rule: rule, Props: props, Text: fmt.Sprintf(f, a...)}
}

func New(cfg Cfg) *Model {
	return &Model{Cfg: cfg, Topics: map[string]*Topic{}, Subs: map[string]*Sub{}, MsgIdx: map[string]int{}, Snaps: map[string]*Snap{}}
}

// Short names are "id" (project p) or "project:id".
func SplitShort(short string) (project, id string) {
	if i := strings.IndexByte(short, ':'); i >= 0 {
		return short[:i], short[i+1:]
	}
	return "p", short
}
func ProjectPath(project string) string { return "projects/" + project }
func TopicPath(short string) string {
	p, id := SplitShort(short)
	return "projects/" + p + "/topics/" + id
}
func SubPath(short string) string {
	p, id := SplitShort(short)
	return "projects/" + p + "/subscriptions/" + id
}
func SnapPath(short string) string {
	p, id := SplitShort(short)
	return "projects/" + p + "/snapshots/" + id
}

// ---------------------------------------------------------------------------
// clone

func (m *Model) Clone() *Model {
	c := &Model{Cfg: m.Cfg, Topics: map[string]*Topic{}, Subs: map[string]*Sub{}, MsgIdx: map[string]int{}, Snaps: map[string]*Snap{}, NPub: m.NPub, NSnap: m.NSnap, Steps: m.Steps}
	for k, t := range m.Topics {
		tt := *t
		c.Topics[k] = &tt
	}
	for k, s := range m.Subs {
		ss := *s
		ss.Dels = make([]*Del, len(s.Dels))
		for i, d := range s.Dels {
			dd := *d
			ss.Dels[i] = &dd
		}
		ss.Held = append([]string(nil), s.Held...)
		ss.Done = append([]string(nil), s.Done...)
		c.Subs[k] = &ss
	}
	c.Msgs = make([]*Msg, len(m.Msgs))
	for i, x := range m.Msgs {
		xx := *x
		c.Msgs[i] = &xx
	}
	for k, v := range m.MsgIdx {
		c.MsgIdx[k] = v
	}
	for k, s := range m.Snaps {
		ss := *s
		ss.Unacked = map[int]bool{}
		for a, b := range s.Unacked {
			ss.Unacked[a] = b
		}
		c.Snaps[k] = &ss
	}
	return c
}

// ---------------------------------------------------------------------------
// status of one delivery at a call

type Due int

const (
	No Due = iota
	May
	Must
)

// status says whether a pull issued during `call` may / must / must not return d.
// why names the reason for No (used to pick the rule).
func (m *Model) status(s *Sub, idx int, call Iv) (Due, string) {
	d := s.Dels[idx]
	switch d.State {
	case Acked:
		return No, "acked"
	case DeadLettered:
		return No, "deadlettered"
	case Unknown:
		return May, ""
	}
	res := Must
	switch rel(call, d.Exp) {
	case After:
		return No, "expired"
	case Inside:
		res = May
	}
	switch rel(call, d.Due) {
	case Before:
		if d.Leased {
			return No, "leased"
		}
		return No, "notdue"
	case Inside:
		res = May
	}
	if s.Cfg.Ordered && m.Msgs[d.Msg].Key != "" {
		key := m.Msgs[d.Msg].Key
		for j := 0; j < idx; j++ {
			p := s.Dels[j]
			if m.Msgs[p.Msg].Key != key {
				continue
			}
			switch p.State {
			case Acked, DeadLettered:
				continue
			case Unknown:
				res = May
				continue
			}
			if p.Forwarded && d.Forwarded && p.Enq == d.Enq {
				// dead-letter copies enqueued by one and the same step have no
				// publish order among themselves on the dead-letter subscription:
				// the earlier one may or may not hold the later one back
				if rel(call, p.Exp) != After {
					res = May
				}
				continue
			}
			switch rel(call, p.Exp) {
			case Before:
				return No, "ordered"
			case Inside:
				res = May
			}
		}
		// same-step dead-letter copies that come LATER in the model's list may just
		// as well have been enqueued first
		if d.Forwarded {
			for j := idx + 1; j < len(s.Dels); j++ {
				p := s.Dels[j]
				if !p.Forwarded || p.Enq != d.Enq || m.Msgs[p.Msg].Key != key {
					continue
				}
				if (p.State == Outstanding || p.State == Unknown) && rel(call, p.Exp) != After {
					res = May
				}
			}
		}
	}
	return res, ""
}

func (m *Model) hasDL(s *Sub) bool { return s.Cfg.MaxAttempts > 0 && s.Cfg.DLTopic != "" }

// ---------------------------------------------------------------------------
// calls and observations

// Call is a fully resolved operation.
type Call struct {
	Op       Op
	AckIDs   []string
	Time     time.Time // seek target / tick target (logical)
	Payload  [][]byte
	MsgAttrs []map[string]string
}

type RecvMsg struct {
	AckID   string
	MsgID   string
	Data    []byte
	Attrs   map[string]string
	Key     string
	Attempt int
	PubTime time.Time // logical
	// Phase: for a streaming session, the number of follow-up requests that had
	// gone in when the stream sent this message
	Phase int
}

type Row struct {
	ID       string
	Done     bool
	Attempts int
}

type Obs struct {
	T0, T1 time.Time // logical call interval
	// PubT0, PubT1, PubErr: the publish that ran inside a pullWaitPub operation
	PubT0, PubT1 time.Time
	PubErr       string
	// ModT0, ModT1, ModErr: the lease extension that ran inside it (if any)
	ModT0, ModT1 time.Time
	ModErr       string
	Err    string    // "" or gRPC code name
	IDs    []string  // publish ids
	Msgs   []RecvMsg
	N      int // job result
	// Rows: the deliveries table after the call (id -> done, attempts)
	Rows map[string]Row
	// LiveBySubMsg: "subscription path|message id" -> number of not-completed
	// delivery rows of a not-deleted subscription row
	LiveBySubMsg map[string]int
	// LiveTopics / LiveSubs: names of rows with deleted_at IS NULL
	LiveTopics, LiveSubs map[string]int
	// SnapRows: names of snapshot rows
	SnapRows map[string]int
	// Names: Get/List results (full resource paths, in response order)
	Names []string
	// Got: configuration echoed by GetSubscription
	Got *SubView
}

// SubView is the client-visible configuration of a subscription.
type SubView struct {
	Topic       string
	Filter      string
	Ordered     bool
	DLTopic     string
	MaxAttempts int
}

func (o Obs) Call() Iv { return Iv{o.T0, o.T1} }

var AttrPresets = []map[string]string{
	nil,
	{"x": "1"},
	{"x": "2", "y": ""},
}

// ---------------------------------------------------------------------------
// Apply

var (
	pC01 = []string{"C01"}
	pC02 = []string{"C02"}
	pC03 = []string{"C03"}
	pC04 = []string{"C04"}
	pC05 = []string{"C05"}
	pC06 = []string{"C06"}
	pC12 = []string{"C12"}
	pC13 = []string{"C13"}
	pC14 = []string{"C14"}
)

// Apply checks the observation against the model and advances the model.
func (m *Model) Apply(c Call, o Obs) []Hit {
	m.Steps++
	var hits []Hit
	call := o.Call()
	switch c.Op.K {
	case "createTopic":
		hits = m.applyCreateTopic(c, o)
	case "deleteTopic":
		hits = m.applyDeleteTopic(c, o)
	case "createSub":
		hits = m.applyCreateSub(c, o)
	case "deleteSub":
		hits = m.applyDeleteSub(c, o)
	case "pub":
		hits = m.applyPub(c, o)
	case "pull":
		hits = m.applyPull(c, o)
	case "ack":
		hits = m.applyAck(c, o)
	case "modack":
		hits = m.applyModack(c, o)
	case "nack":
		hits = m.applyNack(c, o)
	case "sweepDL":
		hits = m.applySweep(c, o)
	case "seekT":
		hits = m.applySeekT(c, o)
	case "snap":
		hits = m.applySnap(c, o)
	case "seekS":
		hits = m.applySeekS(c, o)
	case "job":
		hits = m.applyJob(c, o)
	case "reconfig":
		hits = m.applyReconfig(c, o)
	case "stream":
		hits = m.applyStream(c, o)
	case "pullWaitPub":
		hits = m.applyPullWaitPub(c, o)
	case "tick", "acknack", "updateSub", "modifyPush", "updateTopic", "updateSubDL", "streamModack", "streamWait":
		// nothing (only used by the fault-enumeration check, which does not consult the model's verdicts)
	case "getTopic", "getSub", "getSnap", "listTopics", "listSubs", "listSnaps", "listTopicSubs", "delSnap":
		hits = m.applyResource(c, o)
	default:
		panic("unknown op " + c.Op.K)
	}
	if o.Rows != nil {
		hits = append(hits, m.checkRows(o, call)...)
	}
	for i := range hits {
		hits[i].Props = m.owners(hits[i], c.Op)
	}
	return hits
}

// owners widens the ownership of a hit by WHAT CAUSED it: a delivery that
// changes because of an operation on another subscription is also an
// independence violation (C02); one that changes because of a seek, an
// ack/nack/modify-deadline or a maintenance job is also a violation of the
// property that says those operations have no such side effect.
func (m *Model) owners(h Hit, op Op) []string {
	if len(h.Props) == 0 {
		return h.Props
	}
	props := append([]string{}, h.Props...)
	add := func(p string) {
		for _, x := range props {
			if x == p {
				return
			}
		}
		props = append(props, p)
	}
	switch op.K {
	case "seekT", "seekS", "snap":
		add("C13")
	case "job":
		add("C15")
	case "ack", "modack", "nack", "acknack":
		if h.Rule != "ack-failed" && (h.Sub == "" || h.Sub != op.Sub || strings.HasPrefix(h.Rule, "row-")) {
			add("C03")
		}
	case "sweepDL":
		add("C06")
	}
	if h.Sub != "" && op.Sub != "" && h.Sub != op.Sub {
		add("C02")
	}
	if s := m.Subs[h.Sub]; s != nil && s.Reconf {
		add("C17")
	}
	// anything wrong on a subscriber of a dead-letter topic concerns forwarding
	if s := m.Subs[h.Sub]; s != nil {
		for _, o := range m.Subs {
			if m.hasDL(o) && o.Cfg.DLTopic == s.Cfg.Topic {
				add("C06")
				break
			}
		}
	}
	return props
}

func (m *Model) liveTopic(short string) *Topic {
	if t := m.Topics[short]; t != nil && t.Live {
		return t
	}
	return nil
}

func (m *Model) liveSub(short string) *Sub {
	if s := m.Subs[short]; s != nil && s.Live {
		return s
	}
	return nil
}

func (m *Model) applyCreateTopic(c Call, o Obs) []Hit {
	t := m.Topics[c.Op.Topic]
	if t != nil && t.Live {
		if o.Err != "AlreadyExists" {
			return []Hit{hit("create-live-topic", pC12, "CreateTopic(%s) on a live name returned %q, want AlreadyExists", c.Op.Topic, o.Err)}
		}
		return nil
	}
	if o.Err != "" {
		return []Hit{hit("create-free-topic", pC12, "CreateTopic(%s) on a free name returned %q", c.Op.Topic, o.Err)}
	}
	gen := 0
	if t != nil {
		gen = t.Gen + 1
	}
	m.Topics[c.Op.Topic] = &Topic{Name: c.Op.Topic, Live: true, Gen: gen}
	return nil
}

func (m *Model) applyDeleteTopic(c Call, o Obs) []Hit {
	t := m.liveTopic(c.Op.Topic)
	if t == nil {
		if o.Err != "NotFound" {
			return []Hit{hit("delete-absent-topic", pC12, "DeleteTopic(%s) on an absent name returned %q, want NotFound", c.Op.Topic, o.Err)}
		}
		return nil
	}
	if o.Err != "" {
		return []Hit{hit("delete-live-topic", pC12, "DeleteTopic(%s) on a live topic returned %q", c.Op.Topic, o.Err)}
	}
	t.Live = false
	// snapshots of the topic are removed with it
	for k, s := range m.Snaps {
		if s.Topic == t.Name && s.TGen == t.Gen {
			delete(m.Snaps, k)
		}
	}
	return nil
}

func (m *Model) subCfg(short string) (SubCfg, bool) {
	for _, s := range m.Cfg.Subs {
		if s.Name == short {
			return s, true
		}
	}
	return SubCfg{}, false
}

func (m *Model) SubCfgFor(op Op) (SubCfg, bool) {
	if op.Tgt == "alt" {
		for _, s := range m.Cfg.Alt {
			if s.Name == op.Sub {
				return s, true
			}
		}
		return SubCfg{}, false
	}
	return m.subCfg(op.Sub)
}

func (m *Model) applyCreateSub(c Call, o Obs) []Hit {
	cfg, ok := m.SubCfgFor(c.Op)
	if !ok {
		panic("no cfg for " + c.Op.Sub)
	}
	if s := m.liveSub(c.Op.Sub); s != nil {
		if o.Err != "AlreadyExists" {
			return []Hit{hit("create-live-sub", pC12, "CreateSubscription(%s) on a live name returned %q, want AlreadyExists", c.Op.Sub, o.Err)}
		}
		return nil
	}
	t := m.liveTopic(cfg.Topic)
	var dl *Topic
	if cfg.DLTopic != "" {
		dl = m.liveTopic(cfg.DLTopic)
	}
	if t == nil || (cfg.DLTopic != "" && dl == nil) {
		if o.Err != "NotFound" {
			return []Hit{hit("create-sub-no-topic", pC12, "CreateSubscription(%s) with a missing topic returned %q, want NotFound", c.Op.Sub, o.Err)}
		}
		return nil
	}
	if o.Err != "" {
		return []Hit{hit("create-free-sub", pC12, "CreateSubscription(%s) on a free name returned %q", c.Op.Sub, o.Err)}
	}
	gen := 0
	if old := m.Subs[c.Op.Sub]; old != nil {
		gen = old.Gen + 1
	}
	ns := &Sub{Cfg: cfg, Live: true, Gen: gen, TGen: t.Gen, Activity: o.Call()}
	if dl != nil {
		ns.DLGen = dl.Gen
	}
	m.Subs[c.Op.Sub] = ns
	return nil
}

func (m *Model) applyDeleteSub(c Call, o Obs) []Hit {
	s := m.liveSub(c.Op.Sub)
	if s == nil {
		if o.Err != "NotFound" {
			return []Hit{hit("delete-absent-sub", pC12, "DeleteSubscription(%s) on an absent name returned %q, want NotFound", c.Op.Sub, o.Err)}
		}
		return nil
	}
	if o.Err != "" {
		return []Hit{hit("delete-live-sub", pC12, "DeleteSubscription(%s) on a live subscription returned %q", c.Op.Sub, o.Err)}
	}
	s.Live = false
	s.DeletedAt = o.Call()
	return nil
}

// expireSubs applies the TTL rule at a pull/get: an expired subscription is only
// *required* to behave as deleted once the expiry sweep has run (README: the
// expiration service marks it deleted when it's time).
func (m *Model) matches(s *Sub, msg *Msg) filt.Tri {
	if s.Cfg.Filter == nil {
		return filt.True
	}
	return s.Cfg.Filter.Eval(msg.Attrs, filt.DontCare)
}

func (m *Model) enqueue(s *Sub, mi int, call Iv, forwarded bool) {
	d := &Del{Msg: mi, State: Outstanding, Enq: call, Due: call.Add(s.Cfg.Delay), Exp: call.Add(s.Cfg.RetentionOrDefault()), Forwarded: forwarded}
	switch m.matches(s, m.Msgs[mi]) {
	case filt.False:
		return
	case filt.DontCare:
		d.State = Unknown
	}
	s.Dels = append(s.Dels, d)
}

func (m *Model) subsOf(topic string, gen int) []*Sub {
	var names []string
	for n, s := range m.Subs {
		if s.Live && s.Cfg.Topic == topic && s.TGen == gen {
			names = append(names, n)
		}
	}
	sort.Strings(names)
	out := make([]*Sub, len(names))
	for i, n := range names {
		out[i] = m.Subs[n]
	}
	return out
}

func (m *Model) applyPub(c Call, o Obs) []Hit {
	m.NPub += len(c.Payload)
	t := m.liveTopic(c.Op.Topic)
	if t == nil {
		if o.Err != "NotFound" {
			return []Hit{hit("pub-absent-topic", pC12, "Publish to absent topic %s returned %q, want NotFound", c.Op.Topic, o.Err)}
		}
		return nil
	}
	if o.Err != "" {
		return []Hit{hit("pub-failed", pC01, "Publish to live topic %s failed: %s", c.Op.Topic, o.Err)}
	}
	if len(o.IDs) != len(c.Payload) {
		return []Hit{hit("pub-ids", pC02, "Publish of %d messages returned %d ids", len(c.Payload), len(o.IDs))}
	}
	var hits []Hit
	for i, id := range o.IDs {
		if _, dup := m.MsgIdx[id]; dup || id == "" {
			hits = append(hits, hit("pub-dup-id", pC02, "Publish returned message id %q that is empty or already in use", id))
			continue
		}
		msg := &Msg{ID: id, Data: c.Payload[i], Attrs: c.MsgAttrs[i], Key: c.Op.Keys[i], Topic: t.Name, TGen: t.Gen, Pub: o.Call()}
		m.Msgs = append(m.Msgs, msg)
		mi := len(m.Msgs) - 1
		m.MsgIdx[id] = mi
		for _, s := range m.subsOf(t.Name, t.Gen) {
			m.enqueue(s, mi, o.Call(), false)
		}
	}
	return hits
}

func jsonEqual(a, b []byte) bool {
	if bytes.Equal(a, b) {
		return true
	}
	da := json.NewDecoder(bytes.NewReader(a))
	da.UseNumber()
	db := json.NewDecoder(bytes.NewReader(b))
	db.UseNumber()
	var va, vb any
	if da.Decode(&va) != nil || db.Decode(&vb) != nil {
		return false
	}
	ja, _ := json.Marshal(va)
	jb, _ := json.Marshal(vb)
	return bytes.Equal(ja, jb)
}

func attrsEqual(a, b map[string]string) bool {
	if len(a) != len(b) {
		return false
	}
	for k, v := range a {
		if w, ok := b[k]; !ok || w != v {
			return false
		}
	}
	return true
}

// findDel locates the delivery a received message denotes on s.
func (m *Model) findDel(s *Sub, rm RecvMsg) int {
	for i, d := range s.Dels {
		if d.AckID != "" && d.AckID == rm.AckID {
			return i
		}
	}
	mi, ok := m.MsgIdx[rm.MsgID]
	if !ok {
		return -1
	}
	// prefer an un-identified delivery of that message that is deliverable
	best := -1
	for i, d := range s.Dels {
		if d.Msg == mi && d.AckID == "" {
			if d.State == Outstanding || d.State == Unknown {
				return i
			}
			if best < 0 {
				best = i
			}
		}
	}
	return best
}

func (m *Model) touch(s *Sub, call Iv) { s.Activity = call }

func (m *Model) applyPull(c Call, o Obs) []Hit {
	hits := m.applyPull1(c, o)
	for i := range hits {
		hits[i].Sub = c.Op.Sub
	}
	return hits
}

func (m *Model) applyPull1(c Call, o Obs) []Hit {
	s := m.liveSub(c.Op.Sub)
	if s == nil {
		if o.Err != "NotFound" {
			return []Hit{hit("pull-absent-sub", append(pC12, "C14"), "Pull on absent subscription %s returned %q (%d msgs), want NotFound", c.Op.Sub, o.Err, len(o.Msgs))}
		}
		return nil
	}
	if c.Op.Tgt == "abandon" && (o.Err == "DeadlineExceeded" || o.Err == "Canceled") {
		// the client gave up while the server was waiting: nothing was delivered, but
		// it was a pull - the idle clock restarted somewhere within the call
		m.touch(s, Iv{o.T0, o.T1})
		return nil
	}
	if o.Err != "" {
		props := pC01
		if c.Op.Tgt == "wait" {
			// a blocking pull that fails / spins instead of waiting for the next
			// lease end, retention end or delay end
			props = []string{"C01", "C04", "C10", "C14"}
		}
		return []Hit{hit("pull-failed", props, "Pull%s on live subscription %s failed: %s", c.Op.Tgt, c.Op.Sub, o.Err)}
	}
	call := o.Call()
	wait := c.Op.Tgt == "wait" || c.Op.Tgt == "abandon"
	start := call
	if wait {
		// a blocking pull answers at the instant something became deliverable (or at
		// its own time-out): judge what it returned at the RETURN instant
		call = Iv{o.T1.Add(-time.Millisecond), o.T1}
		start = Iv{o.T0, o.T0}
	}
	m.touch(s, call)
	var hits []Hit
	if len(o.Msgs) > c.Op.Max {
		hits = append(hits, hit("pull-max", pC02, "Pull(max=%d) returned %d messages", c.Op.Max, len(o.Msgs)))
	}
	// status of every delivery before the call
	st := make([]Due, len(s.Dels))
	why := make([]string, len(s.Dels))
	for i := range s.Dels {
		st[i], why[i] = m.status(s, i, call)
	}
	seen := map[int]bool{}
	seenAck := map[string]bool{}
	for _, rm := range o.Msgs {
		if seenAck[rm.AckID] {
			hits = append(hits, hit("pull-repeat", pC02, "ack id %s twice in one response", rm.AckID))
			continue
		}
		seenAck[rm.AckID] = true
		i := m.findDel(s, rm)
		if i < 0 || seen[i] {
			props := pC02
			if s.Gen > 0 {
				props = append(pC02, "C12")
			}
			hits = append(hits, hit("pull-foreign", props, "Pull(%s) returned message %s (ack %s) that has no delivery owed on this subscription (generation %d of that name)", c.Op.Sub, rm.MsgID, rm.AckID, s.Gen))
			continue
		}
		seen[i] = true
		d := s.Dels[i]
		msg := m.Msgs[d.Msg]
		if rm.MsgID != msg.ID || !jsonEqual(rm.Data, msg.Data) || !attrsEqual(rm.Attrs, msg.Attrs) || rm.Key != msg.Key {
			hits = append(hits, hit("pull-content", pC02, "message %s delivered on %s differs from what was published: got id=%s data=%s attrs=%v key=%q want data=%s attrs=%v key=%q", msg.ID, c.Op.Sub, rm.MsgID, rm.Data, rm.Attrs, rm.Key, msg.Data, msg.Attrs, msg.Key))
		}
		if d.AckID != "" && d.AckID != rm.AckID {
			hits = append(hits, hit("pull-ackid", pC02, "delivery of %s on %s changed ack id %s -> %s", msg.ID, c.Op.Sub, d.AckID, rm.AckID))
		}
		if st[i] == No {
			switch why[i] {
			case "acked":
				hits = append(hits, hit("redeliver-acked", pC03, "message %s was delivered on %s after it had been acknowledged", msg.ID, c.Op.Sub))
			case "deadlettered":
				hits = append(hits, hit("redeliver-deadlettered", pC06, "message %s was delivered on %s after it had been dead-lettered", msg.ID, c.Op.Sub))
			case "expired":
				hits = append(hits, hit("deliver-expired", pC14, "message %s was delivered on %s after its retention ended (%v)", msg.ID, c.Op.Sub, d.Exp.Hi.Sub(call.Lo)))
			case "leased":
				hits = append(hits, hit("deliver-leased", pC04, "message %s was delivered on %s as attempt %d, %v before its retry deadline", msg.ID, c.Op.Sub, rm.Attempt, d.Due.Lo.Sub(call.Hi)))
			case "notdue":
				hits = append(hits, hit("deliver-early", append(pC14, "C04"), "message %s was delivered on %s %v before it was due", msg.ID, c.Op.Sub, d.Due.Lo.Sub(call.Hi)))
			case "ordered":
				hits = append(hits, hit("order-overtake", pC05, "message %s (key %q) was delivered on ordered %s while an earlier message with the same key is still outstanding", msg.ID, msg.Key, c.Op.Sub))
			}
		}
		if d.State != Unknown {
			if rm.Attempt != d.Attempts+1 {
				hits = append(hits, hit("attempt-number", pC04, "message %s on %s reported delivery_attempt %d, want %d", msg.ID, c.Op.Sub, rm.Attempt, d.Attempts+1))
			}
			if m.hasDL(s) && d.Attempts >= s.Cfg.MaxAttempts {
				hits = append(hits, hit("dl-overdelivered", pC06, "message %s on %s delivered as attempt %d although max_delivery_attempts is %d", msg.ID, c.Op.Sub, d.Attempts+1, s.Cfg.MaxAttempts))
			}
		}
		if !rm.PubTime.IsZero() && !d.Forwarded {
			if rm.PubTime.Before(msg.Pub.Lo) || rm.PubTime.After(msg.Pub.Hi) {
				hits = append(hits, hit("pull-pubtime", pC02, "message %s publish_time %v outside its publish call [%v,%v]", msg.ID, rm.PubTime, msg.Pub.Lo, msg.Pub.Hi))
			}
			msg.PubExact = rm.PubTime
		}
		// advance
		if d.AckID == "" {
			d.AckID = rm.AckID
		}
		if d.State == Acked || d.State == DeadLettered {
			// already reported; treat as resurrected so that follow-ups are coherent
			d.State = Unknown
		}
		d.Attempts = rm.Attempt
		d.Leased = true
		n := s.Cfg.Nominal(d.Attempts)
		d.Due = Iv{call.Lo.Add(n), call.Hi.Add(n + Jitter)}
		held := false
		for _, h := range s.Held {
			if h == rm.AckID {
				held = true
			}
		}
		if !held {
			s.Held = append(s.Held, rm.AckID)
		}
	}
	// dead-letter candidates the pull may have retired instead of returning
	nDL := 0
	if m.hasDL(s) {
		for i, d := range s.Dels {
			if seen[i] || st[i] == No || d.State != Outstanding || d.Attempts < s.Cfg.MaxAttempts {
				continue
			}
			// adoption: did the implementation retire it? (ack id is known: attempts>=1)
			if r, ok := o.Rows[d.AckID]; ok && r.Done {
				m.deadLetter(s, i, call)
				nDL++
			}
		}
	}
	if wait {
		// a delivery that had to be deliverable clearly BEFORE the pull returned
		// (and was not blocked, expired or retired) must be in the answer; the
		// 59 s default time-out bounds the wait
		for i, d := range s.Dels {
			if seen[i] || d.State != Outstanding {
				continue
			}
			stStart, _ := m.status(s, i, start)
			by := d.Due.Hi
			if by.Before(o.T0) {
				by = o.T0
			}
			if stStart == Must || (by.Add(300*time.Millisecond).Before(o.T1) && rel(Iv{by, by.Add(300 * time.Millisecond)}, d.Exp) == Before && st[i] != No) {
				if m.hasDL(s) && d.Attempts >= s.Cfg.MaxAttempts {
					continue
				}
				if len(o.Msgs) == 0 {
					hits = append(hits, hit("wait-missed", append(pC01, "C04", "C10"), "blocking Pull(%s) returned nothing at %v after its start although message %s had to be deliverable %v before that", c.Op.Sub, o.T1.Sub(o.T0), m.Msgs[d.Msg].ID, o.T1.Sub(by)))
				}
				break
			}
		}
		if len(o.Msgs) == 0 && o.T1.Sub(o.T0) < 58*time.Second {
			hits = append(hits, hit("wait-early-empty", []string{"C10"}, "blocking Pull(%s) returned empty after only %v", c.Op.Sub, o.T1.Sub(o.T0)))
		}
		return hits
	}
	// liveness: something that must be deliverable ⇒ the pull did something
	if len(o.Msgs) == 0 && nDL == 0 {
		for i, d := range s.Dels {
			if st[i] == Must {
				msg := m.Msgs[d.Msg]
				if m.hasDL(s) && d.Attempts >= s.Cfg.MaxAttempts {
					hits = append(hits, hit("dl-not-forwarded", pC06, "message %s on %s is due after %d deliveries (max %d) but the pull neither forwarded nor returned anything", msg.ID, c.Op.Sub, d.Attempts, s.Cfg.MaxAttempts))
				} else if d.Attempts == 0 {
					hits = append(hits, hit("not-offered", pC01, "message %s is owed to %s (never delivered, due since %v) but Pull returned nothing", msg.ID, c.Op.Sub, call.Lo.Sub(d.Due.Hi)))
				} else {
					hits = append(hits, hit("not-redelivered", append(pC01, "C04"), "message %s on %s (attempts %d) is %v past its retry deadline but Pull returned nothing", msg.ID, c.Op.Sub, d.Attempts, call.Lo.Sub(d.Due.Hi)))
				}
				break
			}
		}
	}
	// a pull with room for everything must hand out (or retire) every Must delivery
	if c.Op.Max >= len(s.Dels) {
		for i, d := range s.Dels {
			if st[i] != Must || seen[i] || d.State != Outstanding {
				continue
			}
			msg := m.Msgs[d.Msg]
			props := pC01
			if s.Cfg.Ordered && msg.Key != "" {
				props = append(pC01, "C05")
			}
			if d.Attempts > 0 {
				props = append(props, "C04")
			}
			hits = append(hits, hit("pull-skipped", props, "Pull(%s,max=%d) returned %d messages but skipped %s which is deliverable (attempts %d)", c.Op.Sub, c.Op.Max, len(o.Msgs), msg.ID, d.Attempts))
		}
	}
	return hits
}

// deadLetter retires delivery i of s and enqueues the message on every live
// subscription of the dead-letter topic.
func (m *Model) deadLetter(s *Sub, i int, call Iv) {
	d := s.Dels[i]
	d.State = DeadLettered
	d.RetiredAt = call
	t := m.Topics[s.Cfg.DLTopic]
	if t == nil || !t.Live || t.Gen != s.DLGen {
		return
	}
	for _, ds := range m.subsOf(t.Name, t.Gen) {
		m.enqueue(ds, d.Msg, call, true)
	}
}

func (m *Model) findByAck(id string) (*Sub, int) {
	for _, n := range m.subNames() {
		s := m.Subs[n]
		for i, d := range s.Dels {
			if d.AckID == id {
				return s, i
			}
		}
	}
	return nil, -1
}

func (m *Model) subNames() []string {
	names := make([]string, 0, len(m.Subs))
	for n := range m.Subs {
		names = append(names, n)
	}
	sort.Strings(names)
	return names
}

func remove(list []string, id string) []string {
	out := list[:0:0]
	for _, x := range list {
		if x != id {
			out = append(out, x)
		}
	}
	return out
}

func (m *Model) applyAck(c Call, o Obs) []Hit {
	if o.Err != "" {
		return []Hit{hit("ack-failed", pC03, "Acknowledge(%v) failed: %s", c.AckIDs, o.Err)}
	}
	reqSub := m.Subs[c.Op.Sub]
	for _, id := range c.AckIDs {
		s, i := m.findByAck(id)
		if s == nil {
			continue // unknown id: no effect
		}
		d := s.Dels[i]
		if s != reqSub {
			// foreign id: the statement leaves the fate of that delivery open
			d.State = Unknown
			continue
		}
		if d.State == Outstanding {
			d.State = Acked
			d.RetiredAt = o.Call()
		}
		s.Held = remove(s.Held, id)
		has := false
		for _, x := range s.Done {
			if x == id {
				has = true
			}
		}
		if !has {
			s.Done = append(s.Done, id)
		}
	}
	return nil
}

func (m *Model) applyModack(c Call, o Obs) []Hit {
	if o.Err != "" {
		return []Hit{hit("modack-failed", pC03, "ModifyAckDeadline(%v) failed: %s", c.AckIDs, o.Err)}
	}
	reqSub := m.Subs[c.Op.Sub]
	call := o.Call()
	for _, id := range c.AckIDs {
		s, i := m.findByAck(id)
		if s == nil {
			continue
		}
		d := s.Dels[i]
		if s != reqSub {
			d.State = Unknown
			continue
		}
		if d.State != Outstanding {
			continue
		}
		if c.Op.D <= 0 {
			d.Due = call
			d.Leased = false
		} else {
			nd := call.Add(c.Op.D)
			if nd.Lo.After(d.Due.Lo) {
				d.Due.Lo = nd.Lo
			}
			if nd.Hi.After(d.Due.Hi) {
				d.Due.Hi = nd.Hi
			}
		}
	}
	return nil
}

func (m *Model) applyNack(c Call, o Obs) []Hit {
	if o.Err != "" {
		return []Hit{hit("nack-failed", pC03, "nack(%v) failed: %s", c.AckIDs, o.Err)}
	}
	call := o.Call()
	for _, id := range c.AckIDs {
		s, i := m.findByAck(id)
		if s == nil {
			continue
		}
		d := s.Dels[i]
		if d.State != Outstanding {
			continue
		}
		if !s.Live {
			// a nack for a delivery of a DELETED subscription: its rows may or may not have
			// been reclaimed already, and no property says what such a nack does (C01 / C06
			// stop at "the subscription is deleted") - neither a forward nor its absence
			// is demanded
			if m.hasDL(s) && d.Attempts >= s.Cfg.MaxAttempts {
				before := map[string]int{}
				for n, o := range m.Subs {
					before[n] = len(o.Dels)
				}
				m.deadLetter(s, i, call)
				for n, o := range m.Subs {
					for k := before[n]; k < len(o.Dels); k++ {
						o.Dels[k].State = Unknown // a copy may or may not have been forwarded
					}
				}
			}
			d.State = Unknown
			continue
		}
		if rel(call, d.Exp) != Before {
			if rel(call, d.Exp) == Inside {
				d.State = Unknown
			}
			continue
		}
		if m.hasDL(s) && d.Attempts >= s.Cfg.MaxAttempts {
			m.deadLetter(s, i, call)
			continue
		}
		n := s.Cfg.Nominal(d.Attempts)
		d.Due = Iv{call.Lo.Add(n), call.Hi.Add(n + Jitter)}
		d.Leased = false
	}
	return nil
}

func (m *Model) applySweep(c Call, o Obs) []Hit {
	if o.Err != "" {
		return []Hit{hit("sweep-failed", pC06, "dead-letter sweep failed: %s", o.Err)}
	}
	call := o.Call()
	var hits []Hit
	for _, n := range m.subNames() {
		s := m.Subs[n]
		if !s.Live || !m.hasDL(s) {
			continue
		}
		for i, d := range s.Dels {
			if d.State != Outstanding || d.Attempts < s.Cfg.MaxAttempts {
				continue
			}
			st, _ := m.status(s, i, call)
			// ordering does not hold back the sweep (a blocked delivery has not
			// been delivered N times); recompute without it
			if rel(call, d.Exp) == After || rel(call, d.Due) == Before {
				continue
			}
			done := false
			if r, ok := o.Rows[d.AckID]; ok && r.Done {
				done = true
			}
			if done {
				m.deadLetter(s, i, call)
			} else if st == Must && c.Op.Max >= 100 {
				hits = append(hits, hit("sweep-missed", pC06, "message %s on %s is due after %d deliveries (max %d) but the sweep did not forward it", m.Msgs[d.Msg].ID, n, d.Attempts, s.Cfg.MaxAttempts))
			}
		}
	}
	return hits
}

func (m *Model) applySeekT(c Call, o Obs) []Hit {
	s := m.liveSub(c.Op.Sub)
	if s == nil {
		if o.Err != "NotFound" {
			return []Hit{hit("seek-absent-sub", pC12, "Seek on absent subscription %s returned %q", c.Op.Sub, o.Err)}
		}
		return nil
	}
	if o.Err != "" {
		return []Hit{hit("seek-failed", pC13, "Seek(%s, time) failed: %s", c.Op.Sub, o.Err)}
	}
	call := o.Call()
	T := c.Time
	for _, d := range s.Dels {
		if d.State == Unknown {
			continue
		}
		switch rel(call, d.Exp) {
		case After:
			continue // not retained any more
		case Inside:
			d.State = Unknown
			continue
		}
		// position of the delivery's enqueue instant relative to T
		exact := m.Msgs[d.Msg].PubExact
		var atOrBefore, after bool
		if !d.Forwarded && !exact.IsZero() {
			atOrBefore = !exact.After(T)
			after = exact.After(T)
		} else {
			atOrBefore = !d.Enq.Hi.After(T)
			after = d.Enq.Lo.After(T)
		}
		switch {
		case atOrBefore:
			if d.State == Outstanding {
				d.State = Acked
				d.RetiredAt = call
			}
		case after:
			if d.State == Acked || d.State == DeadLettered {
				if d.MaybePruned {
					d.State = Unknown
					continue
				}
				d.State = Outstanding
				d.Due = call
				d.Exp = call.Add(s.Cfg.RetentionOrDefault())
				d.Leased = false
			}
		default:
			d.State = Unknown
		}
	}
	return nil
}

func (m *Model) applySnap(c Call, o Obs) []Hit {
	s := m.liveSub(c.Op.Sub)
	_, exists := m.Snaps[c.Op.Name]
	if exists {
		if o.Err != "AlreadyExists" {
			return []Hit{hit("snap-exists", pC12, "CreateSnapshot(%s) on an existing name returned %q, want AlreadyExists", c.Op.Name, o.Err)}
		}
		return nil
	}
	if s == nil {
		if o.Err != "NotFound" {
			return []Hit{hit("snap-absent-sub", pC12, "CreateSnapshot on absent subscription %s returned %q", c.Op.Sub, o.Err)}
		}
		return nil
	}
	if o.Err != "" {
		return []Hit{hit("snap-failed", pC13, "CreateSnapshot(%s of %s) failed: %s", c.Op.Name, c.Op.Sub, o.Err)}
	}
	call := o.Call()
	sn := &Snap{Name: c.Op.Name, Sub: c.Op.Sub, SubGen: s.Gen, Topic: s.Cfg.Topic, TGen: s.TGen, At: call, Unacked: map[int]bool{}, NMsgs: len(m.Msgs)}
	for _, d := range s.Dels {
		if d.State == Outstanding && rel(call, d.Exp) == Before {
			sn.Unacked[d.Msg] = true
		}
		if d.State == Unknown || (d.State == Outstanding && rel(call, d.Exp) == Inside) {
			sn.Unacked[d.Msg] = false // present with false = unknown
		}
	}
	m.Snaps[c.Op.Name] = sn
	return nil
}

func (m *Model) applySeekS(c Call, o Obs) []Hit {
	s := m.liveSub(c.Op.Sub)
	sn := m.Snaps[c.Op.Name]
	if s == nil || sn == nil {
		if o.Err != "NotFound" {
			return []Hit{hit("seeks-absent", pC12, "Seek(%s, snapshot %s) with a missing subscription or snapshot returned %q", c.Op.Sub, c.Op.Name, o.Err)}
		}
		return nil
	}
	if o.Err != "" {
		return []Hit{hit("seeks-failed", pC13, "Seek(%s, snapshot %s) failed: %s", c.Op.Sub, c.Op.Name, o.Err)}
	}
	call := o.Call()
	for _, d := range s.Dels {
		if d.State == Unknown {
			continue
		}
		un, known := sn.Unacked[d.Msg]
		since := d.Msg >= sn.NMsgs || (d.Forwarded && d.Enq.Lo.After(sn.At.Hi))
		if d.Forwarded && !since {
			// forwarded copies enqueued before the snapshot: identified by message
			// like any other delivery
			_ = since
		}
		want := since || (known && un)
		if known && !un && !since {
			d.State = Unknown
			continue
		}
		expired := rel(call, d.Exp)
		if want {
			if d.State == Acked || d.State == DeadLettered {
				_ = expired
				if d.MaybePruned {
					// the row may be gone
					d.State = Unknown
					continue
				}
				// (a snapshot seek restores what the snapshot says, with fresh retention,
				// whether or not the acknowledged delivery's old retention has ended
				// meanwhile: the set is defined by the snapshot, not by the clock)
				d.State = Outstanding
				d.Due = call
				d.Exp = call.Add(s.Cfg.RetentionOrDefault())
				d.Leased = false
			}
		} else {
			if d.State == Outstanding {
				if expired == After {
					continue
				}
				if expired == Inside {
					d.State = Unknown
					continue
				}
				d.State = Acked
				d.RetiredAt = call
			}
		}
	}
	return nil
}

// JobKinds in the order the services register them.
var JobNames = []string{
	"prune-completed-deliveries",
	"prune-expired-deliveries",
	"prune-completed-messages",
	"prune-deleted-subscription-deliveries",
	"prune-deleted-subscriptions",
	"prune-deleted-topics",
	"delete-expired-subscriptions",
}

func (m *Model) applyJob(c Call, o Obs) []Hit {
	if strings.Contains(o.Err, "LOCK-LEFT") {
		return []Hit{hit("job-leaves-lock", []string{"C15", "C09"}, "maintenance job %s failed and left the database locked: %s", c.Op.Job, o.Err)}
	}
	if o.Err != "" {
		// a job that fails once is not yet "stuck"; the convergence run decides
		return []Hit{hit("job-failed", nil, "maintenance job %s failed: %s", c.Op.Job, o.Err)}
	}
	call := o.Call()
	switch c.Op.Job {
	case "prune-completed-deliveries":
		for _, s := range m.Subs {
			for _, d := range s.Dels {
				if (d.State == Acked || d.State == DeadLettered) && !d.RetiredAt.Lo.Add(c.Op.MinAge).After(call.Hi) {
					d.MaybePruned = true
				}
			}
		}
	case "prune-expired-deliveries":
		for _, s := range m.Subs {
			for _, d := range s.Dels {
				if rel(call, d.Exp) != Before {
					d.MaybePruned = true
				}
			}
		}
	case "prune-deleted-topics":
		// a soft-deleted topic can only be reclaimed (and its late snapshots with
		// it) when no subscription row refers to it any more; a LIVE subscription
		// certainly still does
		for _, sn := range m.Snaps {
			t := m.Topics[sn.Topic]
			if t != nil && t.Live && t.Gen == sn.TGen {
				continue
			}
			pinned := false
			for _, s := range m.Subs {
				// (a dead-letter reference does not keep a deleted topic: that foreign key is SET NULL)
				if s.Live && s.Cfg.Topic == sn.Topic && s.TGen == sn.TGen {
					pinned = true
				}
			}
			if !pinned {
				sn.MaybeGone = true
			}
		}
	case "delete-expired-subscriptions":
		var hits []Hit
		n := 0
		for _, name := range m.subNames() {
			s := m.Subs[name]
			if !s.Live {
				continue
			}
			dead := s.Activity.Add(s.Cfg.TTLOrDefault())
			switch rel(call, dead) {
			case After:
				// strictly: expires_at < now
				if n < c.Op.MaxDel {
					s.Live = false
					s.DeletedAt = call
					n++
				}
			case Inside:
				hits = append(hits, hit("ttl-unclean", nil, "harness: expiry sweep inside the TTL window of %s", name))
			}
		}
		return hits
	}
	return nil
}

// checkRows: the deliveries table after each step (anchor of C01/C03):
// a delivery the model holds outstanding must still have a live row, one it
// holds acknowledged must not have become live again.
func (m *Model) checkRows(o Obs, call Iv) []Hit {
	var hits []Hit
	defer func() {}()
	if o.LiveTopics != nil {
		for n, t := range m.Topics {
			c := o.LiveTopics[TopicPath(n)]
			if t.Live && c != 1 || !t.Live && c != 0 {
				hits = append(hits, hit("live-topic-rows", []string{"C12", "C15"}, "topic %s: model live=%v but %d live rows", n, t.Live, c))
			}
		}
		for n, s := range m.Subs {
			c := o.LiveSubs[SubPath(n)]
			if s.Live && c != 1 || !s.Live && c != 0 {
				hits = append(hits, hitOn(n, "live-sub-rows", []string{"C12", "C15", "C14"}, "subscription %s: model live=%v but %d live rows", n, s.Live, c))
			}
		}
	}
	if o.SnapRows != nil {
		for n, sn := range m.Snaps {
			if c := o.SnapRows[SnapPath(n)]; c != 1 && !(sn.MaybeGone && c == 0) {
				hits = append(hits, hit("snapshot-rows", []string{"C12", "C15", "C13"}, "snapshot %s exists for clients but %d rows", n, c))
			}
		}
		for path, c := range o.SnapRows {
			found := false
			for n := range m.Snaps {
				if SnapPath(n) == path {
					found = true
				}
			}
			if !found && c > 0 {
				hits = append(hits, hit("snapshot-rows", []string{"C12", "C15"}, "snapshot row %s exists but the snapshot was deleted (with its topic or explicitly)", path))
			}
		}
	}
	for _, n := range m.subNames() {
		s := m.Subs[n]
		need := map[int]int{}
		for _, d := range s.Dels {
			if d.AckID == "" {
				if s.Live && o.LiveBySubMsg != nil && d.State == Outstanding && rel(call, d.Exp) == Before {
					need[d.Msg]++
				}
				continue
			}
			r, ok := o.Rows[d.AckID]
			if ok && d.MaybePruned {
				// the row is there: whatever batch the job took, this one was not in it
				d.MaybePruned = false
			}
			switch d.State {
			case Outstanding:
				if rel(call, d.Exp) != Before {
					continue
				}
				if !s.Live {
					continue
				}
				if !ok {
					hits = append(hits, hitOn(n, "row-lost", append(pC01, "C15"), "delivery %s of message %s on %s is outstanding but its row is gone", d.AckID, m.Msgs[d.Msg].ID, n))
				} else if r.Done {
					hits = append(hits, hitOn(n, "row-completed", pC01, "delivery %s of message %s on %s is outstanding (not acked, not expired, not dead-lettered) but its row is completed", d.AckID, m.Msgs[d.Msg].ID, n))
				}
			case Acked, DeadLettered:
				if ok && !r.Done {
					p := pC03
					if d.State == DeadLettered {
						p = pC06
					}
					hits = append(hits, hitOn(n, "row-resurrected", p, "delivery %s of message %s on %s was %s but its row is live again", d.AckID, m.Msgs[d.Msg].ID, n, d.State))
				}
			}
		}
		for mi, k := range need {
			// never-delivered deliveries are identified by (subscription, message)
			if have := o.LiveBySubMsg[SubPath(n)+"|"+m.Msgs[mi].ID]; have < k {
				hits = append(hits, hitOn(n, "row-missing", append(pC01, "C15"), "message %s is owed to %s (%d undelivered deliveries) but only %d live delivery rows exist", m.Msgs[mi].ID, n, k, have))
			}
		}
		// the converse: live delivery rows the model knows nothing about (a message
		// enqueued on a subscription it is not owed to, or enqueued twice)
		if s.Live && o.LiveBySubMsg != nil {
			allowed := map[string]int{}
			open := false
			for _, d := range s.Dels {
				switch d.State {
				case Outstanding, Unknown:
					allowed[m.Msgs[d.Msg].ID]++
				default:
					if d.MaybePruned {
						open = true
					}
				}
			}
			_ = open
			prefix := SubPath(n) + "|"
			for k, have := range o.LiveBySubMsg {
				if !strings.HasPrefix(k, prefix) {
					continue
				}
				id := strings.TrimPrefix(k, prefix)
				if have > allowed[id] {
					props := append([]string{}, pC02...)
					if _, known := m.MsgIdx[id]; known {
						for _, d := range s.Dels {
							if m.Msgs[d.Msg].ID == id && d.State == Acked {
								props = append(props, "C03")
							}
							if m.Msgs[d.Msg].ID == id && d.State == DeadLettered {
								props = append(props, "C06")
							}
						}
					}
					hits = append(hits, hitOn(n, "row-unexpected", props, "%d live delivery rows of message %s on %s, the model allows %d (not owed, already retired, or enqueued twice)", have, id, n, allowed[id]))
				}
			}
		}
	}
	return hits
}

// Outstanding lists, per live subscription, the messages that are still owed.
func (m *Model) Owed(call Iv) map[string][]string {
	out := map[string][]string{}
	for _, n := range m.subNames() {
		s := m.Subs[n]
		if !s.Live {
			continue
		}
		for i, d := range s.Dels {
			if d.State == Outstanding && rel(call, d.Exp) == Before {
				if s.Cfg.Ordered && m.Msgs[d.Msg].Key != "" {
					// an earlier same-key delivery whose fate the properties leave open
					// (don't-care) may legitimately still hold this one back
					blocked := false
					for j := 0; j < i; j++ {
						if s.Dels[j].State == Unknown && m.Msgs[s.Dels[j].Msg].Key == m.Msgs[d.Msg].Key {
							blocked = true
						}
					}
					if blocked {
						continue
					}
				}
				out[n] = append(out[n], m.Msgs[d.Msg].ID)
			}
		}
	}
	return out
}

// Digest is the model's contribution to the state key.
func (m *Model) Digest(now time.Time, bucket time.Duration) string {
	var b strings.Builder
	rd := func(t time.Time) string {
		if t.IsZero() {
			return "-"
		}
		return t.Sub(now).Round(bucket).String()
	}
	for _, n := range m.subNames() {
		s := m.Subs[n]
		fmt.Fprintf(&b, "%s live=%v gen=%d act=%s..%s rc=%v held=%d done=%d\n", n, s.Live, s.Gen, rd(s.Activity.Lo), rd(s.Activity.Hi), s.Reconf, len(s.Held), len(s.Done))
		for _, d := range s.Dels {
			held := 0
			for i, h := range s.Held {
				if h == d.AckID {
					held = i + 1
				}
			}
			// (when it was retired decides what an age-thresholded prune job may remove later)
			fmt.Fprintf(&b, " m%d %s a%d due=%s exp=%s enq=%s ret=%s mp=%v h=%d l=%v id=%v\n", d.Msg, d.State, d.Attempts, rd(d.Due.Lo), rd(d.Exp.Lo), rd(d.Enq.Lo), rd(d.RetiredAt.Lo), d.MaybePruned, held, d.Leased, d.AckID != "")
		}
	}
	tn := make([]string, 0, len(m.Topics))
	for n := range m.Topics {
		tn = append(tn, n)
	}
	sort.Strings(tn)
	for _, n := range tn {
		fmt.Fprintf(&b, "%s live=%v gen=%d\n", n, m.Topics[n].Live, m.Topics[n].Gen)
	}
	sn := make([]string, 0, len(m.Snaps))
	for n := range m.Snaps {
		sn = append(sn, n)
	}
	sort.Strings(sn)
	for _, n := range sn {
		s := m.Snaps[n]
		var un []string
		for k, v := range s.Unacked {
			un = append(un, fmt.Sprintf("%d:%v", k, v))
		}
		sort.Strings(un)
		fmt.Fprintf(&b, "snap %s of %s n=%d un=%v\n", n, s.Sub, s.NMsgs, un)
	}
	return b.String()
}

// ---------------------------------------------------------------------------
// resource names (C12)

func sortedCopy(in []string) []string {
	out := append([]string(nil), in...)
	sort.Strings(out)
	return out
}

func sameSet(a, b []string) bool {
	a, b = sortedCopy(a), sortedCopy(b)
	if len(a) != len(b) {
		return false
	}
	for i := range a {
		if a[i] != b[i] {
			return false
		}
	}
	return true
}

func (m *Model) applyResource(c Call, o Obs) []Hit {
	switch c.Op.K {
	case "getTopic":
		live := m.liveTopic(c.Op.Topic) != nil
		if live != (o.Err == "") || (!live && o.Err != "NotFound") {
			return []Hit{hit("get-topic", pC12, "GetTopic(%s): live=%v but response %q", c.Op.Topic, live, o.Err)}
		}
		if live && (len(o.Names) != 1 || o.Names[0] != TopicPath(c.Op.Topic)) {
			return []Hit{hit("get-topic-name", pC12, "GetTopic(%s) returned %v", c.Op.Topic, o.Names)}
		}
	case "getSub":
		s := m.liveSub(c.Op.Sub)
		live := s != nil
		if live != (o.Err == "") || (!live && o.Err != "NotFound") {
			return []Hit{hit("get-sub", append(pC12, "C14"), "GetSubscription(%s): live=%v but response %q", c.Op.Sub, live, o.Err)}
		}
		if live {
			if len(o.Names) != 1 || o.Names[0] != SubPath(c.Op.Sub) {
				return []Hit{hit("get-sub-name", pC12, "GetSubscription(%s) returned %v", c.Op.Sub, o.Names)}
			}
			if o.Got != nil {
				want := SubView{Topic: TopicPath(s.Cfg.Topic), Ordered: s.Cfg.Ordered, MaxAttempts: s.Cfg.MaxAttempts}
				if t := m.Topics[s.Cfg.Topic]; t == nil || !t.Live || t.Gen != s.TGen {
					want.Topic = "_deleted-topic_"
				}
				if s.Cfg.Filter != nil {
					want.Filter = s.Cfg.Filter.Render(filtStyle)
				}
				if s.Cfg.MaxAttempts > 0 {
					want.DLTopic = TopicPath(s.Cfg.DLTopic)
					if t := m.Topics[s.Cfg.DLTopic]; t == nil || !t.Live || t.Gen != s.DLGen {
						want.DLTopic = "_deleted-topic_"
					}
				}
				if *o.Got != want {
					return []Hit{hit("get-sub-config", append(pC12, "C17"), "GetSubscription(%s) (generation %d) returned %+v, want %+v", c.Op.Sub, s.Gen, *o.Got, want)}
				}
			}
		}
	case "getSnap":
		_, live := m.Snaps[c.Op.Name]
		if live != (o.Err == "") || (!live && o.Err != "NotFound") {
			return []Hit{hit("get-snap", pC12, "GetSnapshot(%s): exists=%v but response %q", c.Op.Name, live, o.Err)}
		}
	case "delSnap":
		_, live := m.Snaps[c.Op.Name]
		if live != (o.Err == "") || (!live && o.Err != "NotFound") {
			return []Hit{hit("del-snap", pC12, "DeleteSnapshot(%s): exists=%v but response %q", c.Op.Name, live, o.Err)}
		}
		delete(m.Snaps, c.Op.Name)
	case "listTopics", "listSubs", "listSnaps":
		if o.Err != "" {
			return []Hit{hit("list-failed", pC12, "%s(%s, page %d) failed: %s", c.Op.K, c.Op.Tgt, c.Op.Max, o.Err)}
		}
		var want []string
		switch c.Op.K {
		case "listTopics":
			for n, t := range m.Topics {
				if p, _ := SplitShort(n); t.Live && p == c.Op.Tgt {
					want = append(want, TopicPath(n))
				}
			}
		case "listSubs":
			for n, s := range m.Subs {
				if p, _ := SplitShort(n); s.Live && p == c.Op.Tgt {
					want = append(want, SubPath(n))
				}
			}
		case "listSnaps":
			for n := range m.Snaps {
				if p, _ := SplitShort(n); p == c.Op.Tgt {
					want = append(want, SnapPath(n))
				}
			}
		}
		if !sameSet(want, o.Names) {
			return []Hit{hit("list-mismatch", pC12, "%s(project %s, page size %d) returned %v, the live set of exactly that project is %v", c.Op.K, c.Op.Tgt, c.Op.Max, sortedCopy(o.Names), sortedCopy(want))}
		}
	case "listTopicSubs":
		t := m.liveTopic(c.Op.Topic)
		if t == nil {
			if o.Err != "NotFound" {
				return []Hit{hit("list-topic-subs-absent", pC12, "ListTopicSubscriptions(%s) on an absent topic returned %q", c.Op.Topic, o.Err)}
			}
			return nil
		}
		if o.Err != "" {
			return []Hit{hit("list-failed", pC12, "ListTopicSubscriptions(%s) failed: %s", c.Op.Topic, o.Err)}
		}
		var want []string
		for n, s := range m.Subs {
			if s.Live && s.Cfg.Topic == c.Op.Topic && s.TGen == t.Gen {
				want = append(want, SubPath(n))
			}
		}
		if !sameSet(want, o.Names) {
			return []Hit{hit("list-mismatch", pC12, "ListTopicSubscriptions(%s, page size %d) returned %v, want %v", c.Op.Topic, c.Op.Max, sortedCopy(o.Names), sortedCopy(want))}
		}
	}
	return nil
}

var filtStyle = filt.Style{}

// ---------------------------------------------------------------------------
// reconfiguration through UpdateSubscription (filter / retry policy): it only
// affects what happens from now on (new publishes, new leases)

var FilterPresets = map[string]*filt.Node{
	"filter:none": nil,
	"filter:x":    filt.H("x"),
	"filter:notx": filt.N(filt.H("x")),
	"filter:x=1":  filt.E("x", "1"),
}

// TTLPresets / RetPresets: values a reconfig op sets (0 = the field is cleared
// and the documented default applies)
var TTLPresets = map[string]time.Duration{"ttl:2min": 2 * time.Minute, "ttl:1h": time.Hour, "ttl:default": 0}
var RetPresets = map[string]time.Duration{"ret:40s": 40 * time.Second, "ret:10min": 10 * time.Minute, "ret:default": 0}

func (m *Model) applyReconfig(c Call, o Obs) []Hit {
	s := m.liveSub(c.Op.Sub)
	if s == nil {
		if o.Err != "NotFound" {
			return []Hit{hit("update-absent-sub", pC12, "UpdateSubscription on absent subscription %s returned %q", c.Op.Sub, o.Err)}
		}
		return nil
	}
	if o.Err != "" {
		return []Hit{hit("update-failed", []string{"C17"}, "UpdateSubscription(%s, %s) failed: %s", c.Op.Sub, c.Op.Tgt, o.Err)}
	}
	switch {
	case strings.HasPrefix(c.Op.Tgt, "filter:"):
		f, ok := FilterPresets[c.Op.Tgt]
		if !ok {
			panic("unknown preset " + c.Op.Tgt)
		}
		s.Cfg.Filter = f
	case strings.HasPrefix(c.Op.Tgt, "ttl:"):
		d, ok := TTLPresets[c.Op.Tgt]
		if !ok {
			panic("unknown preset " + c.Op.Tgt)
		}
		s.Cfg.TTL = d
		// "expired only after a full TTL without pull activity": never before last
		// activity + new TTL; an update may (and here does) restart the clock, so
		// the end of the idle period lies between the two
		s.Activity = Iv{s.Activity.Lo, o.Call().Hi}
		s.Reconf = true
	case strings.HasPrefix(c.Op.Tgt, "ret:"):
		d, ok := RetPresets[c.Op.Tgt]
		if !ok {
			panic("unknown preset " + c.Op.Tgt)
		}
		s.Cfg.Retention = d
		s.Reconf = true
	case strings.HasPrefix(c.Op.Tgt, "dl:"):
		// "dl:<topic>": dead-letter policy re-targeted (max 1 attempt); "dl:none": removed
		if t := strings.TrimPrefix(c.Op.Tgt, "dl:"); t == "none" {
			s.Cfg.DLTopic, s.Cfg.MaxAttempts = "", 0
		} else {
			s.Cfg.DLTopic, s.Cfg.MaxAttempts = t, 1
		}
	case c.Op.Tgt == "retry:1s":
		s.Cfg.MinBackoff, s.Cfg.MaxBackoff = time.Second, 0
	case c.Op.Tgt == "retry:30s-max40s":
		s.Cfg.MinBackoff, s.Cfg.MaxBackoff = 30*time.Second, 40*time.Second
	case c.Op.Tgt == "retry:none":
		s.Cfg.MinBackoff, s.Cfg.MaxBackoff = 0, 0
	case c.Op.Tgt == "retry:5s-max0":
		// an explicit zero is "not configured": the default applies
		s.Cfg.MinBackoff, s.Cfg.MaxBackoff = 5*time.Second, 0
	case c.Op.Tgt == "retry:min0-max40s":
		s.Cfg.MinBackoff, s.Cfg.MaxBackoff = 0, 40*time.Second
	default:
		panic("unknown reconfig " + c.Op.Tgt)
	}
	s.Reconf = true
	return nil
}

// applyPullWaitPub: a blocking Pull during which (D after its start) one message
// is published to Topic.  The publish is applied first (at its own instant), the
// pull is judged at its return instant like every waiting pull; in addition the
// pull must not outlast the publish by more than a second when the published
// message is deliverable to it at once (C10: no lost wake-up, whatever timers
// fired and re-queries happened before the publish).
func (m *Model) applyPullWaitPub(c Call, o Obs) []Hit {
	var hits []Hit
	doMod := func() {
		if len(c.AckIDs) > 0 {
			mo := o
			mo.T0, mo.T1, mo.Msgs, mo.Err = o.ModT0, o.ModT1, nil, o.ModErr
			hits = append(hits, m.applyModack(Call{Op: Op{K: "modack", Sub: c.Op.Sub, D: 60 * time.Second}, AckIDs: c.AckIDs}, mo)...)
		}
	}
	owed := false
	doPub := func() {
		po := o
		po.T0, po.T1, po.Msgs, po.Err = o.PubT0, o.PubT1, nil, o.PubErr
		pc := Call{Op: Op{K: "pub", Topic: c.Op.Topic, Keys: []string{""}, Attrs: []int{0}}, Payload: c.Payload, MsgAttrs: c.MsgAttrs}
		hits = append(hits, m.applyPub(pc, po)...)
		if s := m.liveSub(c.Op.Sub); s != nil && len(o.IDs) == 1 {
			if mi, ok := m.MsgIdx[o.IDs[0]]; ok {
				for i, d := range s.Dels {
					if d.Msg == mi {
						if st, _ := m.status(s, i, Iv{o.PubT1, o.PubT1.Add(time.Millisecond)}); st == Must {
							owed = true
						}
					}
				}
			}
		}
	}
	doPull := func() {
		hits = append(hits, m.applyPull(Call{Op: Op{K: "pull", Sub: c.Op.Sub, Max: c.Op.Max, Tgt: "wait"}}, o)...)
	}
	// the three things happened in real (virtual) time order: the Pull may have
	// returned at once (something was deliverable), before the extension and the
	// publish that were scheduled into its wait
	switch {
	case len(c.AckIDs) > 0 && !o.T1.After(o.ModT0):
		doPull()
		doMod()
		doPub()
	case !o.T1.After(o.PubT0):
		doMod()
		doPull()
		doPub()
	default:
		doMod()
		doPub()
		doPull()
		if owed && o.Err == "" && o.T1.Sub(o.PubT1) > time.Second {
			hits = append(hits, hitOn(c.Op.Sub, "wake-late", []string{"C10"}, "a Pull on %s that was waiting when a message was published to it (%v after the pull started) returned only %v after that publish committed", c.Op.Sub, o.PubT1.Sub(o.T0), o.T1.Sub(o.PubT1)))
		}
	}
	// a long poll that finds nothing ends when its maximum wait (59 s), counted from
	// its START, is over - however often it was woken without anything to deliver
	if o.Err == "" && len(o.Msgs) == 0 && o.T1.Sub(o.T0) > 61*time.Second {
		hits = append(hits, hitOn(c.Op.Sub, "pull-overstays", []string{"C10"}, "an empty Pull on %s lasted %v (maximum wait 59s); it was woken %v after its start by a publish that made nothing deliverable", c.Op.Sub, o.T1.Sub(o.T0), o.PubT1.Sub(o.T0)))
	}
	return hits
}

// applyStream: a StreamingPull session = the settle requests it carried
// (acks / zero or positive deadlines for ids the client held) followed by what
// a pull with a large limit would deliver.
func (m *Model) applyStream(c Call, o Obs) []Hit {
	if o.Err != "" {
		return []Hit{hit("stream-failed", append(pC01, "C03", "C11"), "StreamingPull(%s, %s) ended with %s", c.Op.Sub, c.Op.Tgt, o.Err)}
	}
	s := m.liveSub(c.Op.Sub)
	var hits []Hit
	settle := Call{Op: Op{Sub: c.Op.Sub}, AckIDs: c.AckIDs}
	so := o
	so.Msgs = nil
	doSettle := func() {
		switch c.Op.Tgt {
		case "open-ack", "later-ack":
			settle.Op.K = "ack"
			hits = append(hits, m.applyAck(settle, so)...)
		case "open-nack", "later-nack":
			settle.Op.K = "modack"
			settle.Op.D = 0
			hits = append(hits, m.applyModack(settle, so)...)
		case "later-extend":
			settle.Op.K = "modack"
			settle.Op.D = 60 * time.Second
			hits = append(hits, m.applyModack(settle, so)...)
		}
	}
	doPull := func(msgs []RecvMsg) {
		po := o
		po.Msgs = msgs
		ph := m.applyPull(Call{Op: Op{K: "pull", Sub: c.Op.Sub, Max: 1000}}, po)
		for i := range ph {
			if ph[i].Rule == "redeliver-acked" || ph[i].Rule == "row-resurrected" {
				ph[i].Props = append(ph[i].Props, "C03")
			}
		}
		hits = append(hits, ph...)
	}
	switch c.Op.Tgt {
	case "plain":
		doPull(o.Msgs)
	case "ack-seek-ack":
		// phases: 0 sent before the first ack went in, 1 between that ack and the
		// Seek, 2 after the Seek, 3 after the second ack
		var ph [4][]RecvMsg
		for _, rm := range o.Msgs {
			k := rm.Phase
			if k > 3 {
				k = 3
			}
			ph[k] = append(ph[k], rm)
		}
		ackOf := func(ms []RecvMsg) {
			a := Call{Op: Op{K: "ack", Sub: c.Op.Sub}}
			for _, rm := range ms {
				a.AckIDs = append(a.AckIDs, rm.AckID)
			}
			if len(a.AckIDs) > 0 {
				hits = append(hits, m.applyAck(a, so)...)
			}
		}
		doPull(ph[0])
		ackOf(ph[0])
		doPull(ph[1])
		hits = append(hits, m.applySeekT(Call{Op: Op{K: "seekT", Sub: c.Op.Sub, Tgt: "before-all"}, Time: c.Time}, so)...)
		doPull(ph[2])
		ackOf(append(append([]RecvMsg{}, ph[1]...), ph[2]...))
		doPull(ph[3])
	case "later-ack-mixed":
		// the follow-up acknowledges the ids chosen before the session AND every
		// message the stream had delivered when it went in
		var p0, p1 []RecvMsg
		for _, rm := range o.Msgs {
			if rm.Phase == 0 {
				p0 = append(p0, rm)
				settle.AckIDs = append(settle.AckIDs, rm.AckID)
			} else {
				p1 = append(p1, rm)
			}
		}
		doPull(p0)
		settle.Op.K = "ack"
		hits = append(hits, m.applyAck(settle, so)...)
		doPull(p1)
	case "later-extend-then-nack":
		var ph [3][]RecvMsg
		for _, rm := range o.Msgs {
			k := rm.Phase
			if k > 2 {
				k = 2
			}
			ph[k] = append(ph[k], rm)
		}
		doPull(ph[0])
		settle.Op.K, settle.Op.D = "modack", 600*time.Second
		hits = append(hits, m.applyModack(settle, so)...)
		doPull(ph[1])
		settle.Op.D = 0
		hits = append(hits, m.applyModack(settle, so)...)
		doPull(ph[2])
	case "later-ack+extend", "later-ack+nack":
		var p0, p1 []RecvMsg
		for _, rm := range o.Msgs {
			if rm.Phase == 0 {
				p0 = append(p0, rm)
			} else {
				p1 = append(p1, rm)
			}
		}
		doPull(p0)
		if len(c.AckIDs) > 0 {
			a := Call{Op: Op{K: "ack", Sub: c.Op.Sub}, AckIDs: c.AckIDs[:1]}
			hits = append(hits, m.applyAck(a, so)...)
			if len(c.AckIDs) > 1 {
				d := Call{Op: Op{K: "modack", Sub: c.Op.Sub}, AckIDs: c.AckIDs[1:]}
				if c.Op.Tgt == "later-ack+extend" {
					d.Op.D = 60 * time.Second
				}
				hits = append(hits, m.applyModack(d, so)...)
			}
		}
		doPull(p1)
	case "later-ack", "later-nack", "later-extend":
		// the stream first serves what is due at its opening; the follow-up request
		// (carrying ids chosen before the session) is processed after that; what the
		// stream sends from then on is judged against the settled state
		var p0, p1 []RecvMsg
		for _, rm := range o.Msgs {
			if rm.Phase == 0 {
				p0 = append(p0, rm)
			} else {
				p1 = append(p1, rm)
			}
		}
		doPull(p0)
		doSettle()
		doPull(p1)
	case "open-ack", "open-nack":
		// ids carried by the OPENING request are settled by the stream's reader
		// while its sender already fetches: for an id whose delivery is deliverable
		// at that instant the two orders are both legal, so that delivery's part
		// in this session is left open (it may be sent before the settle, after
		// it, or both for a nack); ids that are not deliverable (leased, settled,
		// unknown) have one legal outcome only
		var racy []*Del
		if s != nil {
			call := o.Call()
			for i, d := range s.Dels {
				if d.State != Outstanding || d.AckID == "" {
					continue
				}
				target := false
				for _, id := range c.AckIDs {
					if id == d.AckID {
						target = true
					}
				}
				if st, _ := m.status(s, i, call); target && st != No {
					racy = append(racy, d)
					d.State = Unknown
				}
			}
		}
		msgs := o.Msgs
		if len(racy) > 0 && c.Op.Tgt == "open-nack" {
			// keep only the last sending of a racy delivery
			last := map[string]int{}
			for i, rm := range msgs {
				last[rm.AckID] = i
			}
			var kept []RecvMsg
			for i, rm := range msgs {
				isRacy := false
				for _, d := range racy {
					if d.AckID == rm.AckID {
						isRacy = true
					}
				}
				if isRacy && last[rm.AckID] != i {
					continue
				}
				kept = append(kept, rm)
			}
			msgs = kept
		}
		if c.Op.Tgt == "open-ack" {
			doPull(msgs)
			for _, d := range racy {
				if d.State == Unknown {
					d.State = Outstanding
				}
			}
			doSettle()
		} else {
			doSettle()
			doPull(msgs)
			for _, d := range racy {
				if d.State == Unknown && d.Leased {
					d.State = Outstanding
				}
			}
		}
	}
	return hits
}
