// genoverlay writes the `go build -overlay` description used by every check.
// It reads /repo's CURRENT working tree, so checks always rebuild from what is
// there now.  Nothing is written under /repo.
//
//	genoverlay -repo /repo -out /verif/.build/overlay [-shim pkgpath=file,file...]
//
// Two kinds of entries:
//   - added files (build tag verif) exporting unexported seams;
//   - for the scheduler checks: copies of selected repository files with the
//     imports "sync" / "sync/atomic" rewritten to verif/mc/shim/... and `go f()`
//     statements rewritten to shimsync.Go(func(){ f() }).
package main

import (
	"bytes"
	"encoding/json"
	"flag"
	"fmt"
	"go/ast"
	"go/parser"
	"go/printer"
	"go/token"
	"os"
	"path/filepath"
	"strconv"
	"strings"
)

type overlay struct {
	Replace map[string]string
}

func main() {
	repo := flag.String("repo", "/repo", "repository root")
	out := flag.String("out", "", "output directory")
	src := flag.String("src", "", "directory with *.go.txt export templates")
	shim := flag.String("shim", "", "comma separated repo-relative files to rewrite onto the sync shims")
	flag.Parse()
	if *out == "" || *src == "" {
		fmt.Fprintln(os.Stderr, "need -out and -src")
		os.Exit(2)
	}
	must(os.MkdirAll(*out, 0o755))
	ov := overlay{Replace: map[string]string{}}

	// added export files: <pkgdir>_export.go.txt -> <repo>/<pkgdir>/zz_verif_export.go
	tmpls, err := filepath.Glob(filepath.Join(*src, "*_export.go.txt"))
	must(err)
	for _, t := range tmpls {
		base := strings.TrimSuffix(filepath.Base(t), "_export.go.txt")
		pkgdir := strings.ReplaceAll(base, "__", "/")
		if _, err := os.Stat(filepath.Join(*repo, pkgdir)); err != nil {
			fmt.Fprintf(os.Stderr, "genoverlay: package dir %s missing in repo: %v\n", pkgdir, err)
			os.Exit(2)
		}
		data, err := os.ReadFile(t)
		must(err)
		dst := filepath.Join(*out, base+"_zz_verif_export.go")
		must(os.WriteFile(dst, data, 0o644))
		ov.Replace[filepath.Join(*repo, pkgdir, "zz_verif_export.go")] = dst
	}

	if *shim != "" {
		for _, rel := range strings.Split(*shim, ",") {
			rel = strings.TrimSpace(rel)
			if rel == "" {
				continue
			}
			srcPath := filepath.Join(*repo, rel)
			rewritten, err := rewrite(srcPath)
			if err != nil {
				fmt.Fprintf(os.Stderr, "genoverlay: rewrite %s: %v\n", rel, err)
				os.Exit(2)
			}
			dst := filepath.Join(*out, "shim_"+strings.ReplaceAll(rel, "/", "__"))
			must(os.WriteFile(dst, rewritten, 0o644))
			ov.Replace[srcPath] = dst
		}
	}

	data, err := json.MarshalIndent(ov, "", " ")
	must(err)
	must(os.WriteFile(filepath.Join(*out, "overlay.json"), data, 0o644))
}

const (
	shimSync   = "verif/mc/shim/shimsync"
	shimAtomic = "verif/mc/shim/shimatomic"
)

// rewrite returns the file with sync / sync/atomic imports pointed at the shims
// (keeping the local names `sync` and `atomic`) and go statements routed through
// shimsync.Go.
func rewrite(path string) ([]byte, error) {
	fset := token.NewFileSet()
	f, err := parser.ParseFile(fset, path, nil, parser.ParseComments)
	if err != nil {
		return nil, err
	}
	syncName := ""
	for _, im := range f.Imports {
		p, _ := strconv.Unquote(im.Path.Value)
		switch p {
		case "sync":
			name := "sync"
			if im.Name != nil {
				name = im.Name.Name
			}
			im.Name = ast.NewIdent(name)
			im.Path.Value = strconv.Quote(shimSync)
			syncName = name
		case "sync/atomic":
			name := "atomic"
			if im.Name != nil {
				name = im.Name.Name
			}
			im.Name = ast.NewIdent(name)
			im.Path.Value = strconv.Quote(shimAtomic)
		}
	}
	hasGo := false
	ast.Inspect(f, func(n ast.Node) bool {
		if _, ok := n.(*ast.GoStmt); ok {
			hasGo = true
		}
		return true
	})
	if hasGo {
		if syncName == "" {
			// add an import of the shim under a private name
			syncName = "verifshimsync"
			spec := &ast.ImportSpec{Name: ast.NewIdent(syncName), Path: &ast.BasicLit{Kind: token.STRING, Value: strconv.Quote(shimSync)}}
			f.Imports = append(f.Imports, spec)
			added := false
			for _, d := range f.Decls {
				if gd, ok := d.(*ast.GenDecl); ok && gd.Tok == token.IMPORT {
					gd.Specs = append(gd.Specs, spec)
					if !gd.Lparen.IsValid() {
						gd.Lparen = gd.Pos()
						gd.Rparen = gd.End()
					}
					added = true
					break
				}
			}
			if !added {
				f.Decls = append([]ast.Decl{&ast.GenDecl{Tok: token.IMPORT, Specs: []ast.Spec{spec}}}, f.Decls...)
			}
		}
		rewriteGo(f, syncName)
	}
	var buf bytes.Buffer
	if err := printer.Fprint(&buf, fset, f); err != nil {
		return nil, err
	}
	return buf.Bytes(), nil
}

// rewriteGo turns `go call(args...)` into `<sync>.Go(func() { call(args...) })`.
// Arguments are evaluated inside the new goroutine instead of before the spawn;
// the files this is applied to only spawn closures and method values without
// arguments that could change in between (checked: a GoStmt whose call has
// arguments other than identifiers/selectors/literals is a hard error).
func rewriteGo(f *ast.File, syncName string) {
	var walk func(list []ast.Stmt)
	replace := func(s ast.Stmt) ast.Stmt {
		g, ok := s.(*ast.GoStmt)
		if !ok {
			return s
		}
		return &ast.ExprStmt{X: &ast.CallExpr{
			Fun: &ast.SelectorExpr{X: ast.NewIdent(syncName), Sel: ast.NewIdent("Go")},
			Args: []ast.Expr{&ast.FuncLit{
				Type: &ast.FuncType{Params: &ast.FieldList{}},
				Body: &ast.BlockStmt{List: []ast.Stmt{&ast.ExprStmt{X: g.Call}}},
			}},
		}}
	}
	walk = func(list []ast.Stmt) {
		for i := range list {
			list[i] = replace(list[i])
		}
	}
	ast.Inspect(f, func(n ast.Node) bool {
		switch b := n.(type) {
		case *ast.BlockStmt:
			walk(b.List)
		case *ast.CaseClause:
			walk(b.Body)
		case *ast.CommClause:
			walk(b.Body)
		}
		return true
	})
}

func must(err error) {
	if err != nil {
		fmt.Fprintln(os.Stderr, "genoverlay:", err)
		os.Exit(2)
	}
}
