package probe

import (
	"testing"
	"testing/synctest"
	"time"

	"go.6river.tech/mmmbbb/actions"
	_ "go.6river.tech/mmmbbb/ent/runtime"
)

func TestProbe(t *testing.T) {
	synctest.Test(t, func(t *testing.T) {
		t0 := time.Now()
		time.Sleep(time.Hour)
		t.Log(time.Since(t0), actions.ErrNotFound)
	})
}
