// Package report writes evidence files, replay artefacts and the
// VIOLATION / KNOWN-FINDING lines of the check interface.
package report

import (
	"crypto/sha256"
	"encoding/hex"
	"encoding/json"
	"fmt"
	"os"
	"path/filepath"
	"regexp"
	"strconv"
	"strings"
	"syscall"
	"time"
)

// Root of the verification tree (evidence/, replays/, known_findings.json)
var Root = func() string {
	if r := os.Getenv("VERIF_ROOT"); r != "" {
		return r
	}
	return "/verif"
}()

type Evidence struct {
	PropertyID  string         `json:"property_id"`
	Tier        string         `json:"tier"`
	Seed        int            `json:"seed"`
	Level       string         `json:"level"`
	Coverage    map[string]any `json:"coverage"`
	Assumptions []string       `json:"assumptions"`
	WallS       float64        `json:"wall_s"`
	Violations  int            `json:"violations"`
}

func Tier() string {
	if t := os.Getenv("VERIF_TIER"); t == "thorough" {
		return "thorough"
	}
	return "quick"
}

func Seed() int {
	n, _ := strconv.Atoi(os.Getenv("VERIF_SEED"))
	return n
}

func WriteEvidence(e Evidence) error {
	if e.Assumptions == nil {
		e.Assumptions = []string{}
	}
	dir := filepath.Join(Root, "evidence")
	if err := os.MkdirAll(dir, 0o755); err != nil {
		return err
	}
	b, err := json.MarshalIndent(e, "", " ")
	if err != nil {
		return err
	}
	return os.WriteFile(filepath.Join(dir, e.PropertyID+".json"), append(b, '\n'), 0o644)
}

// Finding is one entry of /verif/known_findings.json.
type Finding struct {
	Property string `json:"property"`
	ID       string `json:"id"`
	Status   string `json:"status"` // "known" | "fixed"
	Commit   string `json:"commit,omitempty"`
	Rule     string `json:"rule"`
	// Match: regular expression that the violation text (rule + text + path)
	// must match for this entry to apply.
	Match string `json:"match"`
	What  string `json:"what"`
}

func LoadFindings() ([]Finding, error) {
	b, err := os.ReadFile(filepath.Join(Root, "known_findings.json"))
	if err != nil {
		if os.IsNotExist(err) {
			return nil, nil
		}
		return nil, err
	}
	var fs []Finding
	if err := json.Unmarshal(b, &fs); err != nil {
		return nil, fmt.Errorf("known_findings.json: %w", err)
	}
	return fs, nil
}

// Viol is a violation in check-independent form.
type Viol struct {
	Property string   `json:"property"`
	Check    string   `json:"check"` // scenario / harness name
	Rule     string   `json:"rule"`
	Text     string   `json:"text"`
	Trace    []string `json:"trace"` // operation list / schedule / input
	Extra    any      `json:"extra,omitempty"`
}

func (v Viol) signature() string {
	return v.Rule + " | " + v.Check + " | " + v.Text + " | " + strings.Join(v.Trace, " ; ")
}

// Classify splits violations into new ones and ones covered by a "known" entry.
func Classify(prop string, vs []Viol) (fresh []Viol, known map[string][]Viol, err error) {
	fs, err := LoadFindings()
	if err != nil {
		return nil, nil, err
	}
	known = map[string][]Viol{}
	for _, v := range vs {
		matched := false
		for _, f := range fs {
			if f.Property != prop || f.Status != "known" || f.Rule != v.Rule {
				continue
			}
			re, rerr := regexp.Compile(f.Match)
			if rerr != nil {
				return nil, nil, fmt.Errorf("known_findings.json entry %s: %v", f.ID, rerr)
			}
			if re.MatchString(v.signature()) {
				known[f.ID] = append(known[f.ID], v)
				matched = true
				break
			}
		}
		if !matched {
			fresh = append(fresh, v)
		}
	}
	return
}

// WriteReplay stores a violation as a replayable artefact and returns its path.
func WriteReplay(v Viol) string {
	h := sha256.Sum256([]byte(v.signature()))
	dir := filepath.Join(Root, "replays", v.Property)
	os.MkdirAll(dir, 0o755)
	p := filepath.Join(dir, hex.EncodeToString(h[:6])+".json")
	b, _ := json.MarshalIndent(v, "", " ")
	os.WriteFile(p, append(b, '\n'), 0o644)
	return p
}

// Finish prints the interface lines, writes the evidence and returns the exit
// code (0 = held on everything explored or only known findings; 1 = violation).
func Finish(e Evidence, vs []Viol, t0 time.Time) int {
	e.WallS = time.Since(t0).Seconds()
	fresh, known, err := Classify(e.PropertyID, vs)
	if err != nil {
		fmt.Fprintln(os.Stderr, "report:", err)
		return 2
	}
	fs, _ := LoadFindings()
	for _, f := range fs {
		if f.Property == e.PropertyID && f.Status == "known" {
			if n := len(known[f.ID]); n > 0 {
				fmt.Printf("KNOWN-FINDING: property=%s %s (%s; %d occurrences in this run, e.g. %s)\n", f.Property, f.What, f.ID, n, strings.Join(known[f.ID][0].Trace, " ; "))
			} else {
				fmt.Printf("KNOWN-FINDING: property=%s %s (%s; not re-observed in this run's bounds)\n", f.Property, f.What, f.ID)
			}
		}
	}
	e.Violations = len(fresh)
	if e.Coverage == nil {
		e.Coverage = map[string]any{}
	}
	kn := map[string]int{}
	for id, l := range known {
		kn[id] = len(l)
	}
	e.Coverage["known_finding_occurrences"] = kn
	shown := 0
	for _, v := range fresh {
		p := WriteReplay(v)
		if shown < 10 {
			fmt.Printf("VIOLATION property=%s replay=%s\n", v.Property, p)
			fmt.Printf("  rule=%s check=%s\n  %s\n  trace: %s\n", v.Rule, v.Check, v.Text, strings.Join(v.Trace, " ; "))
			shown++
		}
	}
	if len(fresh) > shown {
		fmt.Printf("  ... and %d more violations (replays written)\n", len(fresh)-shown)
	}
	// self-check: every part of a check leaves its fields in the coverage; a field
	// that used to be there and is gone means a part did not run (unless a
	// debugging filter narrowed this run on purpose)
	if missing := missingCoverage(e); len(missing) > 0 {
		fmt.Fprintf(os.Stderr, "HARNESS-WARNING: evidence of %s lacks the coverage fields %v that /verif/evidence_keys.json expects: a part of the check did not run\n", e.PropertyID, missing)
		e.Coverage["missing_expected_fields"] = missing
	}
	if err := WriteEvidence(e); err != nil {
		fmt.Fprintln(os.Stderr, "report: evidence:", err)
		return 2
	}
	if len(fresh) > 0 {
		return 1
	}
	return 0
}

// RealNow is the wall clock even inside a testing/synctest bubble (where
// time.Now is virtual): wall-clock budgets of explorations that run inside a
// bubble must use it.
func RealNow() time.Time {
	var tv syscall.Timeval
	if err := syscall.Gettimeofday(&tv); err != nil {
		return time.Now()
	}
	return time.Unix(tv.Sec, tv.Usec*1000)
}

// missingCoverage compares the coverage fields with the committed expectation
// (evidence_keys.json: property -> tier -> fields).
func missingCoverage(e Evidence) []string {
	for _, k := range []string{"VERIF_ONLY", "VERIF_SCEN", "VERIF_NO_SCHED", "VERIF_NO_HIST", "VERIF_NO_EVENTS", "VERIF_DEPTH", "VERIF_PATH", "VERIF_REPLAY"} {
		if os.Getenv(k) != "" {
			return nil
		}
	}
	b, err := os.ReadFile(filepath.Join(Root, "evidence_keys.json"))
	if err != nil {
		return nil
	}
	var exp map[string][]string
	if json.Unmarshal(b, &exp) != nil {
		return nil
	}
	var missing []string
	for _, k := range exp[e.PropertyID] {
		if _, ok := e.Coverage[k]; !ok {
			missing = append(missing, k)
		}
	}
	return missing
}
