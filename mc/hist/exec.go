// Package hist executes abstract operations on the real code (through the
// in-process gRPC handler objects and the narrow action seams) and feeds the
// observations to the reference model.
package hist

import (
	"context"
	"fmt"
	"time"

	"github.com/google/uuid"
	"google.golang.org/grpc/status"
	"google.golang.org/protobuf/types/known/durationpb"
	"google.golang.org/protobuf/types/known/timestamppb"

	"go.6river.tech/mmmbbb/actions"
	"go.6river.tech/mmmbbb/ent"
	"go.6river.tech/mmmbbb/grpc/pubsubpb"
	"go.6river.tech/mmmbbb/services"

	"verif/mc/filt"
	"verif/mc/model"
	"verif/mc/world"
)

type Runner struct {
	W *world.World
	M *model.Model
	// Sep is the pause inserted after every operation so that consecutive
	// operations have distinct, ordered times.
	Sep time.Duration
}

func errCode(err error) string {
	if err == nil {
		return ""
	}
	if s, ok := status.FromError(err); ok {
		return s.Code().String()
	}
	return "error: " + err.Error()
}

func SubRequest(c model.SubCfg) *pubsubpb.Subscription {
	req := &pubsubpb.Subscription{
		Name:                  model.SubPath(c.Name),
		Topic:                 model.TopicPath(c.Topic),
		EnableMessageOrdering: c.Ordered,
	}
	if c.Filter != nil {
		req.Filter = c.Filter.Render(filt.Style{})
	}
	if c.MinBackoff > 0 || c.MaxBackoff > 0 {
		req.RetryPolicy = &pubsubpb.RetryPolicy{}
		if c.MinBackoff > 0 {
			req.RetryPolicy.MinimumBackoff = durationpb.New(c.MinBackoff)
		}
		if c.MaxBackoff > 0 {
			req.RetryPolicy.MaximumBackoff = durationpb.New(c.MaxBackoff)
		}
	}
	if c.MaxAttempts > 0 {
		req.DeadLetterPolicy = &pubsubpb.DeadLetterPolicy{DeadLetterTopic: model.TopicPath(c.DLTopic), MaxDeliveryAttempts: int32(c.MaxAttempts)}
	}
	if c.Retention > 0 {
		req.MessageRetentionDuration = durationpb.New(c.Retention)
	}
	if c.TTL > 0 {
		req.ExpirationPolicy = &pubsubpb.ExpirationPolicy{Ttl: durationpb.New(c.TTL)}
	}
	return req
}

func (r *Runner) rows() map[string]model.Row {
	tick := r.W.SeqTick
	r.W.SeqTick = false
	defer func() { r.W.SeqTick = tick }()
	out := map[string]model.Row{}
	rs, err := r.W.DB.Query("SELECT id, completed_at IS NOT NULL, attempts FROM deliveries")
	if err != nil {
		panic(err)
	}
	defer rs.Close()
	for rs.Next() {
		var id string
		var done bool
		var att int
		if err := rs.Scan(&id, &done, &att); err != nil {
			panic(err)
		}
		out[id] = model.Row{ID: id, Done: done, Attempts: att}
	}
	return out
}

func parseIDs(ids []string) []uuid.UUID {
	out := make([]uuid.UUID, len(ids))
	for i, s := range ids {
		out[i] = uuid.MustParse(s)
	}
	return out
}

// Exec runs one resolved call on the real code and returns what was observed.
func (r *Runner) Exec(c model.Call) model.Obs {
	w := r.W
	ctx := context.Background()
	var o model.Obs
	o.T0 = w.Now()
	var err error
	switch c.Op.K {
	case "createTopic":
		_, err = w.Pub.CreateTopic(ctx, &pubsubpb.Topic{Name: model.TopicPath(c.Op.Topic)})
	case "deleteTopic":
		_, err = w.Pub.DeleteTopic(ctx, &pubsubpb.DeleteTopicRequest{Topic: model.TopicPath(c.Op.Topic)})
	case "createSub":
		var cfg model.SubCfg
		for _, s := range r.M.Cfg.Subs {
			if s.Name == c.Op.Sub {
				cfg = s
			}
		}
		_, err = w.Sub.CreateSubscription(ctx, SubRequest(cfg))
		if err == nil && cfg.Delay > 0 {
			// what controllers/delay-injector.go PutDelay does
			err = services.VerifSetDelay(ctx, w.Client, model.SubPath(cfg.Name), cfg.Delay)
		}
	case "deleteSub":
		_, err = w.Sub.DeleteSubscription(ctx, &pubsubpb.DeleteSubscriptionRequest{Subscription: model.SubPath(c.Op.Sub)})
	case "pub":
		req := &pubsubpb.PublishRequest{Topic: model.TopicPath(c.Op.Topic)}
		for i := range c.Payload {
			req.Messages = append(req.Messages, &pubsubpb.PubsubMessage{Data: c.Payload[i], Attributes: c.MsgAttrs[i], OrderingKey: c.Op.Keys[i]})
		}
		var resp *pubsubpb.PublishResponse
		resp, err = w.Pub.Publish(ctx, req)
		if err == nil {
			o.IDs = resp.MessageIds
		}
	case "pull":
		var resp *pubsubpb.PullResponse
		resp, err = w.Sub.Pull(ctx, &pubsubpb.PullRequest{Subscription: model.SubPath(c.Op.Sub), MaxMessages: int32(c.Op.Max), ReturnImmediately: true})
		if err == nil {
			for _, rm := range resp.ReceivedMessages {
				m := model.RecvMsg{AckID: rm.AckId, Attempt: int(rm.DeliveryAttempt)}
				if rm.Message != nil {
					m.MsgID = rm.Message.MessageId
					m.Data = rm.Message.Data
					m.Attrs = rm.Message.Attributes
					m.Key = rm.Message.OrderingKey
					if rm.Message.PublishTime != nil {
						m.PubTime = w.ToLogical(rm.Message.PublishTime.AsTime())
					}
				}
				o.Msgs = append(o.Msgs, m)
			}
		}
	case "ack":
		_, err = w.Sub.Acknowledge(ctx, &pubsubpb.AcknowledgeRequest{Subscription: model.SubPath(c.Op.Sub), AckIds: c.AckIDs})
	case "modack":
		_, err = w.Sub.ModifyAckDeadline(ctx, &pubsubpb.ModifyAckDeadlineRequest{Subscription: model.SubPath(c.Op.Sub), AckIds: c.AckIDs, AckDeadlineSeconds: int32(c.Op.D / time.Second)})
	case "nack":
		// the streaming path: MessageStreamer.doAcksNacks runs ack+nack in one tx
		ack := actions.NewAckDeliveries()
		nack := actions.NewNackDeliveries(parseIDs(c.AckIDs)...)
		err = w.Client.DoTx(ctx, nil, func(tx *ent.Tx) error {
			if err := ack.Execute(ctx, tx); err != nil {
				return err
			}
			return nack.Execute(ctx, tx)
		})
	case "sweepDL":
		a := actions.NewDeadLetterDeliveries(actions.DeadLetterDeliveriesParams{MaxDeliveries: c.Op.Max})
		err = w.Client.DoCtxTx(ctx, nil, a.Execute)
		if res, ok := a.Results(); ok {
			o.N = res.NumDeadLettered
		}
	case "seekT":
		_, err = w.Sub.Seek(ctx, &pubsubpb.SeekRequest{Subscription: model.SubPath(c.Op.Sub), Target: &pubsubpb.SeekRequest_Time{Time: timestamppb.New(w.ToVirtual(c.Time))}})
	case "snap":
		_, err = w.Sub.CreateSnapshot(ctx, &pubsubpb.CreateSnapshotRequest{Name: model.SnapPath(c.Op.Name), Subscription: model.SubPath(c.Op.Sub)})
	case "seekS":
		_, err = w.Sub.Seek(ctx, &pubsubpb.SeekRequest{Subscription: model.SubPath(c.Op.Sub), Target: &pubsubpb.SeekRequest_Snapshot{Snapshot: model.SnapPath(c.Op.Name)}})
	case "job":
		j, ok := w.Jobs[c.Op.Job]
		if !ok {
			panic("no job " + c.Op.Job)
		}
		o.N, err = j.Run(ctx, w.Client, actions.PruneCommonParams{MinAge: c.Op.MinAge, MaxDelete: c.Op.MaxDel})
	case "tick":
		w.TickTo(c.Time)
	default:
		panic(fmt.Sprintf("exec: unknown op %q", c.Op.K))
	}
	o.T1 = w.Now()
	o.Err = errCode(err)
	o.Rows = r.rows()
	if r.Sep > 0 {
		w.Tick(r.Sep)
	}
	return o
}

// Do prepares, executes and applies one abstract op.
func (r *Runner) Do(op model.Op) (enabled bool, call model.Call, obs model.Obs, hits []model.Hit) {
	call, enabled = r.M.Prepare(op, r.W.Now())
	if !enabled {
		return
	}
	obs = r.Exec(call)
	hits = r.M.Apply(call, obs)
	return
}

// Setup creates the configured topics and subscriptions through the API.
func (r *Runner) Setup() error {
	for _, t := range r.M.Cfg.Topics {
		_, _, obs, hits := r.Do(model.Op{K: "createTopic", Topic: t})
		if obs.Err != "" || len(hits) > 0 {
			return fmt.Errorf("setup createTopic(%s): %s %v", t, obs.Err, hits)
		}
	}
	for _, s := range r.M.Cfg.Subs {
		_, _, obs, hits := r.Do(model.Op{K: "createSub", Sub: s.Name})
		if obs.Err != "" || len(hits) > 0 {
			return fmt.Errorf("setup createSub(%s): %s %v", s.Name, obs.Err, hits)
		}
	}
	return nil
}
