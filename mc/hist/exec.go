// Package hist executes abstract operations on the real code (through the
// in-process gRPC handler objects and the narrow action seams) and feeds the
// observations to the reference model.
package hist

import (
	"strings"
	"context"
	"errors"
	"fmt"
	"time"

	"github.com/google/uuid"
	"google.golang.org/grpc/codes"
	"google.golang.org/grpc/status"
	"google.golang.org/protobuf/types/known/durationpb"
	"google.golang.org/protobuf/types/known/fieldmaskpb"
	"google.golang.org/protobuf/types/known/timestamppb"

	"go.6river.tech/mmmbbb/actions"
	"go.6river.tech/mmmbbb/ent"
	"go.6river.tech/mmmbbb/grpc/pubsubpb"
	"go.6river.tech/mmmbbb/logging"
	"go.6river.tech/mmmbbb/services"

	"verif/mc/filt"
	"verif/mc/model"
	"verif/mc/world"
)

var Verbose bool

type Runner struct {
	W *world.World
	M *model.Model
	// Sep is the pause inserted after every operation so that consecutive
	// operations have distinct, ordered times.
	Sep time.Duration
	// Ctx, if set, is the request context used by Exec (fault injection)
	Ctx context.Context
	// Bare: no harness queries and no separator pause after the call (used when
	// the call runs as a scheduler thread)
	Bare bool
	// svcCtx: the context background services run under (the base of the current Exec)
	svcCtx context.Context
}

func errCode(err error) string {
	if err == nil {
		return ""
	}
	if s, ok := status.FromError(err); ok {
		return s.Code().String()
	}
	return "error: " + err.Error()
}

func SubRequest(c model.SubCfg) *pubsubpb.Subscription {
	req := &pubsubpb.Subscription{
		Name:                  model.SubPath(c.Name),
		Topic:                 model.TopicPath(c.Topic),
		EnableMessageOrdering: c.Ordered,
	}
	if c.Filter != nil {
		req.Filter = c.Filter.Render(filt.Style{})
	}
	if c.MinBackoff > 0 || c.MaxBackoff > 0 {
		req.RetryPolicy = &pubsubpb.RetryPolicy{}
		if c.MinBackoff > 0 {
			req.RetryPolicy.MinimumBackoff = durationpb.New(c.MinBackoff)
		}
		if c.MaxBackoff > 0 {
			req.RetryPolicy.MaximumBackoff = durationpb.New(c.MaxBackoff)
		}
	}
	if c.MaxAttempts > 0 {
		req.DeadLetterPolicy = &pubsubpb.DeadLetterPolicy{DeadLetterTopic: model.TopicPath(c.DLTopic), MaxDeliveryAttempts: int32(c.MaxAttempts)}
	}
	if c.Retention > 0 {
		req.MessageRetentionDuration = durationpb.New(c.Retention)
	}
	if c.TTL > 0 {
		req.ExpirationPolicy = &pubsubpb.ExpirationPolicy{Ttl: durationpb.New(c.TTL)}
	}
	return req
}

func (r *Runner) liveViews(o *model.Obs) {
	tick := r.W.SeqTick
	r.W.SeqTick = false
	defer func() { r.W.SeqTick = tick }()
	o.LiveBySubMsg = map[string]int{}
	o.LiveTopics = map[string]int{}
	o.LiveSubs = map[string]int{}
	o.SnapRows = map[string]int{}
	q := func(sql string, f func(a, b string)) {
		rs, err := r.W.DB.Query(sql)
		if err != nil {
			panic(err)
		}
		defer rs.Close()
		for rs.Next() {
			var a, b string
			if err := rs.Scan(&a, &b); err != nil {
				panic(err)
			}
			f(a, b)
		}
	}
	q("SELECT s.name, d.message_id FROM deliveries d JOIN subscriptions s ON s.id = d.subscription_id WHERE s.deleted_at IS NULL AND d.completed_at IS NULL",
		func(a, b string) { o.LiveBySubMsg[a+"|"+b]++ })
	q("SELECT name, '' FROM topics WHERE deleted_at IS NULL", func(a, _ string) { o.LiveTopics[a]++ })
	q("SELECT name, '' FROM subscriptions WHERE deleted_at IS NULL", func(a, _ string) { o.LiveSubs[a]++ })
	q("SELECT name, '' FROM snapshots", func(a, _ string) { o.SnapRows[a]++ })
}

func (r *Runner) rows() map[string]model.Row {
	tick := r.W.SeqTick
	r.W.SeqTick = false
	defer func() { r.W.SeqTick = tick }()
	out := map[string]model.Row{}
	rs, err := r.W.DB.Query("SELECT id, completed_at IS NOT NULL, attempts FROM deliveries")
	if err != nil {
		panic(err)
	}
	defer rs.Close()
	for rs.Next() {
		var id string
		var done bool
		var att int
		if err := rs.Scan(&id, &done, &att); err != nil {
			panic(err)
		}
		out[id] = model.Row{ID: id, Done: done, Attempts: att}
	}
	return out
}

func (r *Runner) streamer() *actions.MessageStreamer {
	return &actions.MessageStreamer{Client: r.W.Client, Logger: logging.GetLogger("verif/streamer"), SubscriptionName: "verif"}
}

func parseIDs(ids []string) []uuid.UUID {
	out := make([]uuid.UUID, len(ids))
	for i, s := range ids {
		out[i] = uuid.MustParse(s)
	}
	return out
}

// Exec runs one resolved call on the real code and returns what was observed.
func (r *Runner) Exec(c model.Call) (o model.Obs) {
	// a panicking handler is an observation (the request failed), not a harness crash
	defer func() {
		if p := recover(); p != nil {
			o.T1 = r.W.Now()
			o.Err = fmt.Sprintf("PANIC: %v", p)
			if !r.Bare {
				o.Rows = r.rows()
				r.liveViews(&o)
			}
		}
	}()
	if !r.Bare {
		// code that polls the database in a loop never returns under virtual time:
		// cut it by cancelling the request (never panic inside a driver call: the
		// unwinding would deadlock on database/sql's locks)
		base := r.Ctx
		if base == nil {
			base = context.Background()
		}
		ctx, cancel := context.WithCancel(base)
		defer cancel()
		busy := false
		r.W.SetBudget(OpStatementBudget, func() {
			busy = true
			cancel()
		})
		saved := r.Ctx
		r.Ctx = ctx
		r.svcCtx = base
		o = r.exec(c)
		r.Ctx = saved
		r.W.SetBudget(0, nil)
		if busy {
			o.Err = fmt.Sprintf("BUSY-LOOP: more than %d SQL statements inside one %s operation (it was cancelled; it answered %q)", OpStatementBudget, c.Op.K, o.Err)
		}
		return o
	}
	return r.exec(c)
}

// OpStatementBudget bounds the SQL statements of a single API operation.
const OpStatementBudget = 20000

func (r *Runner) exec(c model.Call) model.Obs {
	w := r.W
	ctx := context.Background()
	if r.Ctx != nil {
		ctx = r.Ctx
	}
	var o model.Obs
	o.T0 = w.Now()
	var err error
	var pullEnd time.Time // pullWaitPub: when the Pull itself returned
	switch c.Op.K {
	case "createTopic":
		_, err = w.Pub.CreateTopic(ctx, &pubsubpb.Topic{Name: model.TopicPath(c.Op.Topic)})
	case "deleteTopic":
		_, err = w.Pub.DeleteTopic(ctx, &pubsubpb.DeleteTopicRequest{Topic: model.TopicPath(c.Op.Topic)})
	case "createSub":
		cfg, _ := r.M.SubCfgFor(c.Op)
		_, err = w.Sub.CreateSubscription(ctx, SubRequest(cfg))
		if err == nil && cfg.Delay > 0 {
			// what controllers/delay-injector.go PutDelay does
			err = services.VerifSetDelay(ctx, w.Client, model.SubPath(cfg.Name), cfg.Delay)
		}
	case "deleteSub":
		_, err = w.Sub.DeleteSubscription(ctx, &pubsubpb.DeleteSubscriptionRequest{Subscription: model.SubPath(c.Op.Sub)})
	case "pub":
		req := &pubsubpb.PublishRequest{Topic: model.TopicPath(c.Op.Topic)}
		for i := range c.Payload {
			req.Messages = append(req.Messages, &pubsubpb.PubsubMessage{Data: c.Payload[i], Attributes: c.MsgAttrs[i], OrderingKey: c.Op.Keys[i]})
		}
		var resp *pubsubpb.PublishResponse
		if c.Op.Tgt == "tie" {
			// a clock that does not move during the request: every message of the batch
			// gets the same publish time
			tick := w.SeqTick
			w.SeqTick = false
			resp, err = w.Pub.Publish(ctx, req)
			w.SeqTick = tick
		} else {
			resp, err = w.Pub.Publish(ctx, req)
		}
		if err == nil {
			o.IDs = resp.MessageIds
		}
	case "pull":
		var resp *pubsubpb.PullResponse
		pctx := ctx
		if c.Op.Tgt == "abandon" {
			// a blocking Pull that the CLIENT gives up after 1 s (its deadline is shorter
			// than the server's wait)
			var pcancel context.CancelFunc
			pctx, pcancel = context.WithTimeout(ctx, time.Second)
			defer pcancel()
		}
		resp, err = w.Sub.Pull(pctx, &pubsubpb.PullRequest{Subscription: model.SubPath(c.Op.Sub), MaxMessages: int32(c.Op.Max), ReturnImmediately: c.Op.Tgt != "wait" && c.Op.Tgt != "abandon"})
		if err == nil {
			for _, rm := range resp.ReceivedMessages {
				m := model.RecvMsg{AckID: rm.AckId, Attempt: int(rm.DeliveryAttempt)}
				if rm.Message != nil {
					m.MsgID = rm.Message.MessageId
					m.Data = rm.Message.Data
					m.Attrs = rm.Message.Attributes
					m.Key = rm.Message.OrderingKey
					if rm.Message.PublishTime != nil {
						m.PubTime = w.ToLogical(rm.Message.PublishTime.AsTime())
					}
				}
				o.Msgs = append(o.Msgs, m)
			}
		}
	case "ack":
		_, err = w.Sub.Acknowledge(ctx, &pubsubpb.AcknowledgeRequest{Subscription: model.SubPath(c.Op.Sub), AckIds: c.AckIDs})
	case "modack":
		_, err = w.Sub.ModifyAckDeadline(ctx, &pubsubpb.ModifyAckDeadlineRequest{Subscription: model.SubPath(c.Op.Sub), AckIds: c.AckIDs, AckDeadlineSeconds: int32(c.Op.D / time.Second)})
	case "nack":
		// the streaming path: MessageStreamer.doAcksNacks (ack+nack in one request)
		err = actions.VerifDoAcksNacks(ctx, r.streamer(), nil, parseIDs(c.AckIDs))
	case "acknack":
		// first half of AckIDs acked, second half nacked, in ONE stream request
		h := len(c.AckIDs) / 2
		err = actions.VerifDoAcksNacks(ctx, r.streamer(), parseIDs(c.AckIDs[:h]), parseIDs(c.AckIDs[h:]))
	case "streamModack":
		// modify-deadline as the stream reader applies it (MessageStreamer.doDelay)
		err = actions.VerifDoDelay(ctx, r.streamer(), parseIDs(c.AckIDs), c.Op.D.Seconds())
	case "updateSubDL":
		_, err = w.Sub.UpdateSubscription(ctx, &pubsubpb.UpdateSubscriptionRequest{
			Subscription: &pubsubpb.Subscription{Name: model.SubPath(c.Op.Sub), DeadLetterPolicy: &pubsubpb.DeadLetterPolicy{DeadLetterTopic: model.TopicPath(c.Op.Topic), MaxDeliveryAttempts: 3}, RetryPolicy: &pubsubpb.RetryPolicy{MinimumBackoff: durationpb.New(2 * time.Second)}},
			UpdateMask:   &fieldmaskpb.FieldMask{Paths: []string{"dead_letter_policy", "retry_policy", "expiration_policy"}}})
	case "pullWaitPub":
		// a blocking Pull; D after its start a message is published to Topic
		w.SetSerialTx(true)
		defer w.SetSerialTx(false)
		pubDone := make(chan struct{})
		go func() {
			defer close(pubDone)
			if len(c.AckIDs) > 0 {
				time.Sleep(c.Op.D / 3)
				o.ModT0 = w.Now()
				_, merr := w.Sub.ModifyAckDeadline(ctx, &pubsubpb.ModifyAckDeadlineRequest{Subscription: model.SubPath(c.Op.Sub), AckIds: c.AckIDs, AckDeadlineSeconds: 60})
				o.ModT1 = w.Now()
				o.ModErr = errCode(merr)
				time.Sleep(c.Op.D - c.Op.D/3)
			} else {
				time.Sleep(c.Op.D)
			}
			o.PubT0 = w.Now()
			presp, perr := w.Pub.Publish(ctx, &pubsubpb.PublishRequest{Topic: model.TopicPath(c.Op.Topic), Messages: []*pubsubpb.PubsubMessage{{Data: c.Payload[0]}}})
			o.PubT1 = w.Now()
			if perr != nil {
				o.PubErr = errCode(perr)
			} else {
				o.IDs = presp.MessageIds
			}
		}()
		var resp *pubsubpb.PullResponse
		resp, err = w.Sub.Pull(ctx, &pubsubpb.PullRequest{Subscription: model.SubPath(c.Op.Sub), MaxMessages: int32(c.Op.Max)})
		pullEnd = w.Now() // (the publisher may still be asleep: the pull's own end)
		<-pubDone
		if err == nil {
			for _, rm := range resp.ReceivedMessages {
				m := model.RecvMsg{AckID: rm.AckId, Attempt: int(rm.DeliveryAttempt)}
				if rm.Message != nil {
					m.MsgID = rm.Message.MessageId
					m.Data = rm.Message.Data
					m.Attrs = rm.Message.Attributes
					m.Key = rm.Message.OrderingKey
					if rm.Message.PublishTime != nil {
						m.PubTime = w.ToLogical(rm.Message.PublishTime.AsTime())
					}
				}
				o.Msgs = append(o.Msgs, m)
			}
		}
	case "streamWait":
		// a StreamingPull that waits for its first message (the streaming
		// counterpart of a blocking Pull)
		var sent []*pubsubpb.ReceivedMessage
		sent, err = streamUntilFirst(w.Sub, ctx, &pubsubpb.StreamingPullRequest{Subscription: model.SubPath(c.Op.Sub), StreamAckDeadlineSeconds: 10, MaxOutstandingMessages: 1000, MaxOutstandingBytes: 10 << 20, ClientId: "verif"}, 5*time.Minute)
		if status.Code(err) == codes.Canceled || errors.Is(err, context.Canceled) {
			err = nil
		}
		for _, rm := range sent {
			m := model.RecvMsg{AckID: rm.AckId, Attempt: int(rm.DeliveryAttempt)}
			if rm.Message != nil {
				m.MsgID = rm.Message.MessageId
			}
			o.Msgs = append(o.Msgs, m)
		}
	case "stream":
		// a StreamingPull session on the real handler: Tgt says where the ack ids go
		first := &pubsubpb.StreamingPullRequest{Subscription: model.SubPath(c.Op.Sub), StreamAckDeadlineSeconds: 10, MaxOutstandingMessages: 1000, MaxOutstandingBytes: 10 << 20, ClientId: "verif"}
		reqs := []*pubsubpb.StreamingPullRequest{first}
		switch c.Op.Tgt {
		case "open-ack":
			first.AckIds = c.AckIDs
		case "later-ack":
			reqs = append(reqs, &pubsubpb.StreamingPullRequest{AckIds: c.AckIDs})
		case "open-nack":
			first.ModifyDeadlineAckIds = c.AckIDs
			first.ModifyDeadlineSeconds = make([]int32, len(c.AckIDs))
		case "later-nack":
			reqs = append(reqs, &pubsubpb.StreamingPullRequest{ModifyDeadlineAckIds: c.AckIDs, ModifyDeadlineSeconds: make([]int32, len(c.AckIDs))})
		case "later-extend-then-nack":
			// two follow-ups on ONE stream: a long extension, then a zero deadline
			secs := make([]int32, len(c.AckIDs))
			for i := range secs {
				secs[i] = 600
			}
			reqs = append(reqs, &pubsubpb.StreamingPullRequest{ModifyDeadlineAckIds: c.AckIDs, ModifyDeadlineSeconds: secs},
				&pubsubpb.StreamingPullRequest{ModifyDeadlineAckIds: c.AckIDs, ModifyDeadlineSeconds: make([]int32, len(c.AckIDs))})
		case "later-ack+extend", "later-ack+nack":
			// ONE follow-up that acknowledges the first id and changes the deadline of the rest
			if len(c.AckIDs) > 0 {
				rest := c.AckIDs[1:]
				secs := make([]int32, len(rest))
				if c.Op.Tgt == "later-ack+extend" {
					for i := range secs {
						secs[i] = 60
					}
				}
				reqs = append(reqs, &pubsubpb.StreamingPullRequest{AckIds: c.AckIDs[:1], ModifyDeadlineAckIds: rest, ModifyDeadlineSeconds: secs})
			}
		case "later-extend":
			secs := make([]int32, len(c.AckIDs))
			for i := range secs {
				secs[i] = 60
			}
			reqs = append(reqs, &pubsubpb.StreamingPullRequest{ModifyDeadlineAckIds: c.AckIDs, ModifyDeadlineSeconds: secs})
		}
		var sent []*pubsubpb.ReceivedMessage
		w.SetSerialTx(true)
		defer w.SetSerialTx(false)
		var marks []int
		if c.Op.Tgt == "later-ack-mixed" {
			// one follow-up request acknowledges ids obtained elsewhere (an earlier
			// Pull) FIRST and then everything this very stream has delivered so far
			sent, marks, err = streamSessionDyn(w.Sub, ctx, []func([]*pubsubpb.ReceivedMessage) *pubsubpb.StreamingPullRequest{
				func([]*pubsubpb.ReceivedMessage) *pubsubpb.StreamingPullRequest { return first },
				func(got []*pubsubpb.ReceivedMessage) *pubsubpb.StreamingPullRequest {
					ids := append([]string{}, c.AckIDs...)
					for _, rm := range got {
						ids = append(ids, rm.AckId)
					}
					return &pubsubpb.StreamingPullRequest{AckIds: ids}
				},
			})
		} else if c.Op.Tgt == "ack-seek-ack" {
			// ONE session: acknowledge what it delivered, rewind the subscription with a
			// Seek (a unary call next to the open stream), acknowledge what the stream
			// delivers again
			atSeek := 0
			var seekErr error
			ackOf := func(ms []*pubsubpb.ReceivedMessage) *pubsubpb.StreamingPullRequest {
				r := &pubsubpb.StreamingPullRequest{}
				for _, rm := range ms {
					r.AckIds = append(r.AckIds, rm.AckId)
				}
				return r
			}
			sent, marks, err = streamSessionDyn(w.Sub, ctx, []func([]*pubsubpb.ReceivedMessage) *pubsubpb.StreamingPullRequest{
				func([]*pubsubpb.ReceivedMessage) *pubsubpb.StreamingPullRequest { return first },
				func(got []*pubsubpb.ReceivedMessage) *pubsubpb.StreamingPullRequest { return ackOf(got) },
				func(got []*pubsubpb.ReceivedMessage) *pubsubpb.StreamingPullRequest {
					atSeek = len(got)
					_, seekErr = w.Sub.Seek(ctx, &pubsubpb.SeekRequest{Subscription: model.SubPath(c.Op.Sub), Target: &pubsubpb.SeekRequest_Time{Time: timestamppb.New(w.ToVirtual(c.Time))}})
					return nil
				},
				func(got []*pubsubpb.ReceivedMessage) *pubsubpb.StreamingPullRequest { return ackOf(got[atSeek:]) },
			})
			if err == nil || status.Code(err) == codes.Canceled || errors.Is(err, context.Canceled) {
				if seekErr != nil {
					err = seekErr
				}
			}
		} else {
			sent, marks, err = streamSession(w.Sub, ctx, reqs)
		}
		if status.Code(err) == codes.Canceled || errors.Is(err, context.Canceled) {
			err = nil // the harness ended the stream
		}
		for i, rm := range sent {
			m := model.RecvMsg{AckID: rm.AckId, Attempt: int(rm.DeliveryAttempt)}
			for k := 1; k < len(marks); k++ {
				if i >= marks[k] {
					m.Phase = k // sent after the k-th follow-up request went in
				}
			}
			if rm.Message != nil {
				m.MsgID = rm.Message.MessageId
				m.Data = rm.Message.Data
				m.Attrs = rm.Message.Attributes
				m.Key = rm.Message.OrderingKey
				if rm.Message.PublishTime != nil {
					m.PubTime = w.ToLogical(rm.Message.PublishTime.AsTime())
				}
			}
			o.Msgs = append(o.Msgs, m)
		}
	case "reconfig":
		req := &pubsubpb.UpdateSubscriptionRequest{Subscription: &pubsubpb.Subscription{Name: model.SubPath(c.Op.Sub)}}
		switch c.Op.Tgt {
		case "retry:1s":
			req.UpdateMask = &fieldmaskpb.FieldMask{Paths: []string{"retry_policy"}}
			req.Subscription.RetryPolicy = &pubsubpb.RetryPolicy{MinimumBackoff: durationpb.New(time.Second)}
		case "retry:30s-max40s":
			req.UpdateMask = &fieldmaskpb.FieldMask{Paths: []string{"retry_policy"}}
			req.Subscription.RetryPolicy = &pubsubpb.RetryPolicy{MinimumBackoff: durationpb.New(30 * time.Second), MaximumBackoff: durationpb.New(40 * time.Second)}
		case "retry:none":
			req.UpdateMask = &fieldmaskpb.FieldMask{Paths: []string{"retry_policy"}}
		case "retry:5s-max0":
			req.UpdateMask = &fieldmaskpb.FieldMask{Paths: []string{"retry_policy"}}
			req.Subscription.RetryPolicy = &pubsubpb.RetryPolicy{MinimumBackoff: durationpb.New(5 * time.Second), MaximumBackoff: durationpb.New(0)}
		case "retry:min0-max40s":
			req.UpdateMask = &fieldmaskpb.FieldMask{Paths: []string{"retry_policy"}}
			req.Subscription.RetryPolicy = &pubsubpb.RetryPolicy{MinimumBackoff: durationpb.New(0), MaximumBackoff: durationpb.New(40 * time.Second)}
		case "dl:none":
			req.UpdateMask = &fieldmaskpb.FieldMask{Paths: []string{"dead_letter_policy"}}
		case "dl:TD", "dl:TE":
			req.UpdateMask = &fieldmaskpb.FieldMask{Paths: []string{"dead_letter_policy"}}
			req.Subscription.DeadLetterPolicy = &pubsubpb.DeadLetterPolicy{DeadLetterTopic: model.TopicPath(strings.TrimPrefix(c.Op.Tgt, "dl:")), MaxDeliveryAttempts: 1}
		case "ttl:2min", "ttl:1h", "ttl:default":
			req.UpdateMask = &fieldmaskpb.FieldMask{Paths: []string{"expiration_policy"}}
			if d := model.TTLPresets[c.Op.Tgt]; d > 0 {
				req.Subscription.ExpirationPolicy = &pubsubpb.ExpirationPolicy{Ttl: durationpb.New(d)}
			}
		case "ret:40s", "ret:10min", "ret:default":
			req.UpdateMask = &fieldmaskpb.FieldMask{Paths: []string{"message_retention_duration"}}
			if d := model.RetPresets[c.Op.Tgt]; d > 0 {
				req.Subscription.MessageRetentionDuration = durationpb.New(d)
			}
		default:
			req.UpdateMask = &fieldmaskpb.FieldMask{Paths: []string{"filter"}}
			if f := model.FilterPresets[c.Op.Tgt]; f != nil {
				req.Subscription.Filter = f.Render(filt.Style{})
			}
		}
		_, err = w.Sub.UpdateSubscription(ctx, req)
	case "updateSub":
		_, err = w.Sub.UpdateSubscription(ctx, &pubsubpb.UpdateSubscriptionRequest{
			Subscription: &pubsubpb.Subscription{Name: model.SubPath(c.Op.Sub), Labels: map[string]string{"k": "v"}, Filter: "attributes:q", EnableMessageOrdering: true},
			UpdateMask:   &fieldmaskpb.FieldMask{Paths: []string{"labels", "filter", "enable_message_ordering"}}})
	case "modifyPush":
		_, err = w.Sub.ModifyPushConfig(ctx, &pubsubpb.ModifyPushConfigRequest{Subscription: model.SubPath(c.Op.Sub), PushConfig: &pubsubpb.PushConfig{PushEndpoint: "http://127.0.0.1:1/p"}})
	case "updateTopic":
		_, err = w.Pub.UpdateTopic(ctx, &pubsubpb.UpdateTopicRequest{Topic: &pubsubpb.Topic{Name: model.TopicPath(c.Op.Topic), Labels: map[string]string{"k": "v"}}, UpdateMask: &fieldmaskpb.FieldMask{Paths: []string{"labels"}}})
	case "sweepDL":
		a := actions.NewDeadLetterDeliveries(actions.DeadLetterDeliveriesParams{MaxDeliveries: c.Op.Max})
		// (what services/deadletter.go does on every tick, under the service's context)
		sctx := ctx
		if r.svcCtx != nil {
			sctx = r.svcCtx
		}
		err = w.Client.DoCtxTx(sctx, nil, a.Execute)
		if err != nil {
			if perr := w.Client.DoCtxTx(context.Background(), nil, func(context.Context, *ent.Tx) error { return nil }); perr != nil {
				err = fmt.Errorf("%w; LOCK-LEFT: a write transaction right after the failed sweep fails too: %v", err, perr)
			}
		}
		if res, ok := a.Results(); ok {
			o.N = res.NumDeadLettered
		}
	case "seekT":
		_, err = w.Sub.Seek(ctx, &pubsubpb.SeekRequest{Subscription: model.SubPath(c.Op.Sub), Target: &pubsubpb.SeekRequest_Time{Time: timestamppb.New(w.ToVirtual(c.Time))}})
	case "snap":
		_, err = w.Sub.CreateSnapshot(ctx, &pubsubpb.CreateSnapshotRequest{Name: model.SnapPath(c.Op.Name), Subscription: model.SubPath(c.Op.Sub)})
	case "seekS":
		_, err = w.Sub.Seek(ctx, &pubsubpb.SeekRequest{Subscription: model.SubPath(c.Op.Sub), Target: &pubsubpb.SeekRequest_Snapshot{Snapshot: model.SnapPath(c.Op.Name)}})
	case "job":
		j, ok := w.Jobs[c.Op.Job]
		if !ok {
			panic("no job " + c.Op.Job)
		}
		// a maintenance job runs under its SERVICE's context, which outlives the tick
		// (a request's context ends with the request, and database/sql then rolls back
		// whatever transaction the code forgot - a service gets no such help)
		sctx := ctx
		if r.svcCtx != nil {
			sctx = r.svcCtx
		}
		jctx, jcancel := context.WithCancel(sctx)
		o.N, err = j.Run(jctx, w.Client, actions.PruneCommonParams{MinAge: c.Op.MinAge, MaxDelete: c.Op.MaxDel})
		if err != nil {
			// a failed tick must leave nothing behind: a write transaction right after it
			// has to get through (the probe waits out SQLite's busy timeout if not)
			noop := func(context.Context, *ent.Tx) error { return nil }
			if perr := w.Client.DoCtxTx(context.Background(), nil, noop); perr != nil {
				err = fmt.Errorf("%w; LOCK-LEFT: a write transaction right after the failed tick fails too: %v", err, perr)
				// "restart the service" so that the exploration can go on: ending its context
				// makes database/sql roll the forgotten transaction back
				jcancel()
				_ = w.Client.DoCtxTx(context.Background(), nil, noop)
			}
		}
		jcancel()
	case "tick":
		w.TickTo(c.Time)
	case "getTopic":
		var t *pubsubpb.Topic
		t, err = w.Pub.GetTopic(ctx, &pubsubpb.GetTopicRequest{Topic: model.TopicPath(c.Op.Topic)})
		if err == nil {
			o.Names = []string{t.Name}
		}
	case "getSub":
		var s *pubsubpb.Subscription
		s, err = w.Sub.GetSubscription(ctx, &pubsubpb.GetSubscriptionRequest{Subscription: model.SubPath(c.Op.Sub)})
		if err == nil {
			o.Names = []string{s.Name}
			o.Got = &model.SubView{Topic: s.Topic, Filter: s.Filter, Ordered: s.EnableMessageOrdering}
			if s.DeadLetterPolicy != nil {
				o.Got.DLTopic = s.DeadLetterPolicy.DeadLetterTopic
				o.Got.MaxAttempts = int(s.DeadLetterPolicy.MaxDeliveryAttempts)
			}
		}
	case "getSnap":
		var s *pubsubpb.Snapshot
		s, err = w.Sub.GetSnapshot(ctx, &pubsubpb.GetSnapshotRequest{Snapshot: model.SnapPath(c.Op.Name)})
		if err == nil {
			o.Names = []string{s.Name}
		}
	case "delSnap":
		_, err = w.Sub.DeleteSnapshot(ctx, &pubsubpb.DeleteSnapshotRequest{Snapshot: model.SnapPath(c.Op.Name)})
	case "listTopics", "listSubs", "listSnaps", "listTopicSubs":
		// walk every page with the requested page size
		token := ""
		for page := 0; page < 1000; page++ {
			var next string
			switch c.Op.K {
			case "listTopics":
				var resp *pubsubpb.ListTopicsResponse
				resp, err = w.Pub.ListTopics(ctx, &pubsubpb.ListTopicsRequest{Project: model.ProjectPath(c.Op.Tgt), PageSize: int32(c.Op.Max), PageToken: token})
				if err == nil {
					for _, t := range resp.Topics {
						o.Names = append(o.Names, t.Name)
					}
					next = resp.NextPageToken
				}
			case "listSubs":
				var resp *pubsubpb.ListSubscriptionsResponse
				resp, err = w.Sub.ListSubscriptions(ctx, &pubsubpb.ListSubscriptionsRequest{Project: model.ProjectPath(c.Op.Tgt), PageSize: int32(c.Op.Max), PageToken: token})
				if err == nil {
					for _, t := range resp.Subscriptions {
						o.Names = append(o.Names, t.Name)
					}
					next = resp.NextPageToken
				}
			case "listSnaps":
				var resp *pubsubpb.ListSnapshotsResponse
				resp, err = w.Sub.ListSnapshots(ctx, &pubsubpb.ListSnapshotsRequest{Project: model.ProjectPath(c.Op.Tgt), PageSize: int32(c.Op.Max), PageToken: token})
				if err == nil {
					for _, t := range resp.Snapshots {
						o.Names = append(o.Names, t.Name)
					}
					next = resp.NextPageToken
				}
			case "listTopicSubs":
				var resp *pubsubpb.ListTopicSubscriptionsResponse
				resp, err = w.Pub.ListTopicSubscriptions(ctx, &pubsubpb.ListTopicSubscriptionsRequest{Topic: model.TopicPath(c.Op.Topic), PageSize: int32(c.Op.Max), PageToken: token})
				if err == nil {
					o.Names = append(o.Names, resp.Subscriptions...)
					next = resp.NextPageToken
				}
			}
			if err != nil || next == "" {
				break
			}
			token = next
		}
	default:
		panic(fmt.Sprintf("exec: unknown op %q", c.Op.K))
	}
	o.T1 = w.Now()
	if !pullEnd.IsZero() {
		o.T1 = pullEnd
	}
	o.Err = errCode(err)
	if r.Bare {
		return o
	}
	o.Rows = r.rows()
	r.liveViews(&o)
	if r.Sep > 0 {
		w.Tick(r.Sep)
	}
	return o
}

// Do prepares, executes and applies one abstract op.
func (r *Runner) Do(op model.Op) (enabled bool, call model.Call, obs model.Obs, hits []model.Hit) {
	call, enabled = r.M.Prepare(op, r.W.Now())
	if !enabled {
		return
	}
	obs = r.Exec(call)
	hits = r.M.Apply(call, obs)
	if Verbose {
		fmt.Printf("  %-28s t=%v err=%q ids=%d msgs=%d", op.Label(), obs.T0.Sub(time.Date(2000, 1, 1, 0, 0, 0, 0, time.UTC)), obs.Err, len(obs.IDs), len(obs.Msgs))
		for _, m := range obs.Msgs {
			fmt.Printf(" [%s att=%d ack=%s]", m.MsgID[:8], m.Attempt, m.AckID[:8])
		}
		if len(call.AckIDs) > 0 {
			fmt.Printf(" ackids=%v", call.AckIDs)
		}
		fmt.Println()
		for _, h := range hits {
			fmt.Println("     HIT", h)
		}
	}
	return
}

// Setup creates the configured topics and subscriptions through the API.
func (r *Runner) Setup() error {
	lazy := map[string]bool{}
	for _, n := range r.M.Cfg.Lazy {
		lazy[n] = true
	}
	for _, n := range r.M.Cfg.LazyTopics {
		lazy["T:"+n] = true
	}
	for _, t := range r.M.Cfg.Topics {
		if lazy["T:"+t] {
			continue
		}
		_, _, obs, hits := r.Do(model.Op{K: "createTopic", Topic: t})
		if obs.Err != "" || len(hits) > 0 {
			return fmt.Errorf("setup createTopic(%s): %s %v", t, obs.Err, hits)
		}
	}
	for _, s := range r.M.Cfg.Subs {
		if lazy[s.Name] {
			continue
		}
		_, _, obs, hits := r.Do(model.Op{K: "createSub", Sub: s.Name})
		if obs.Err != "" || len(hits) > 0 {
			return fmt.Errorf("setup createSub(%s): %s %v", s.Name, obs.Err, hits)
		}
	}
	return nil
}
