package hist

import (
	"bufio"
	"crypto/sha256"
	"encoding/hex"
	"encoding/json"
	"fmt"
	"io"
	"os"
	"os/exec"
	"sort"
	"strings"
	"sync"
	"time"

	"verif/mc/model"
	"verif/mc/world"
)

// Scenario is one configuration + alphabet explored breadth-first.
type Scenario struct {
	ID       string
	Prop     string // owning property: only rules owned by it can raise a violation
	Cfg      model.Cfg
	Alphabet []model.Op
	Depth    int
	Drain    bool
	// Converge: from every state also run the two "reclaim everything" runs (C15)
	Converge bool
	// Prelude is executed (and must be hit-free) before exploration starts.
	Prelude []model.Op
	// Skeleton, if set, replaces the BFS: see RunSkeleton
	Skeleton *Skeleton
	// Metamorphic (C15): a rule hit owned by ANOTHER property is re-run on the same
	// history with the maintenance jobs removed; if it disappears, the jobs changed
	// what clients observe and the hit is a violation of this scenario's property
	Metamorphic bool
	// MetamorphicReverse: also the other direction (a disagreement on a job-free
	// history that goes away once the jobs have run)
	MetamorphicReverse bool
	// PastForeign: a disagreement that only another property owns does not end the
	// branch: the model goes on by the specification, the implementation by what it
	// did, and this property's rules keep being judged (for scenarios in which the
	// unchanged tree has no foreign disagreement at all)
	PastForeign bool
	// AlsoOwn: rules this scenario's property owns here in addition to its own
	// (the scenario is built so that these rules can only fire for its reason,
	// e.g. "not offered" in a scenario about retention)
	AlsoOwn []string
}

const Bucket = 100 * time.Millisecond

// ---------------------------------------------------------------------------
// worker side

type Task struct {
	Scen  string
	Path  []string
	Key   string
	Drain bool // expand nothing, only drain (final level)
	// PathOnly: run the path (skipping operations that are not enabled), report
	// every hit and drain at the end; nothing is expanded (skeleton mode)
	PathOnly bool
}

type Succ struct {
	Label string
	Key   string
	Hits  []model.Hit
	NMsgs int // messages returned by the op (vacuity statistics)
	Resp  string
}

type Result struct {
	Task        Task
	Succ        []Succ
	DrainHits   []model.Hit
	DrainOps    int
	Transitions int
	KeyChecked  bool
	Err         string
}

type Worker struct {
	W     *world.World
	scen  map[string]*Scenario
	init  map[string]*world.Snapshot
	initM map[string]*model.Model
}

func NewWorker(scens []*Scenario) (*Worker, error) {
	w, err := world.Open()
	if err != nil {
		return nil, err
	}
	wk := &Worker{W: w, scen: map[string]*Scenario{}, init: map[string]*world.Snapshot{}, initM: map[string]*model.Model{}}
	for _, s := range scens {
		wk.scen[s.ID] = s
	}
	return wk, nil
}

func (wk *Worker) Close() { wk.W.Close() }

var emptySnap = &world.Snapshot{Cols: map[string][]string{}, Rows: map[string][]world.Row{}}

// start puts the world into the scenario's initial state.
func (wk *Worker) start(sc *Scenario) (*Runner, error) {
	if s, ok := wk.init[sc.ID]; ok {
		if err := wk.W.Restore(s); err != nil {
			return nil, err
		}
		return &Runner{W: wk.W, M: wk.initM[sc.ID].Clone(), Sep: time.Millisecond}, nil
	}
	es := *emptySnap
	es.TakenL = time.Date(2000, 1, 1, 0, 0, 0, 0, time.UTC)
	if err := wk.W.Restore(&es); err != nil {
		return nil, err
	}
	r := &Runner{W: wk.W, M: model.New(sc.Cfg), Sep: time.Millisecond}
	if err := r.Setup(); err != nil {
		return nil, err
	}
	for _, op := range sc.Prelude {
		en, _, _, hits := r.Do(op)
		if !en || len(hits) > 0 {
			return nil, fmt.Errorf("prelude %s: enabled=%v hits=%v", op.Label(), en, hits)
		}
	}
	snap, err := wk.W.Dump()
	if err != nil {
		return nil, err
	}
	wk.init[sc.ID] = snap
	wk.initM[sc.ID] = r.M.Clone()
	return r, nil
}

func (sc *Scenario) op(label string) (model.Op, bool) {
	for _, o := range sc.Alphabet {
		if o.Label() == label {
			return o, true
		}
	}
	return model.Op{}, false
}

func StateKey(r *Runner) (string, *world.Snapshot, error) {
	snap, err := r.W.Dump()
	if err != nil {
		return "", nil, err
	}
	h := sha256.New()
	io.WriteString(h, snap.Canon(Bucket, true))
	io.WriteString(h, "\n--model--\n")
	io.WriteString(h, r.M.Digest(r.W.Now(), Bucket))
	return hex.EncodeToString(h.Sum(nil)[:16]), snap, nil
}

// Replay runs a path from the initial state; it returns the runner positioned
// after the path and every hit seen on the way.
func (wk *Worker) Replay(sc *Scenario, path []string) (*Runner, []model.Hit, error) {
	r, err := wk.start(sc)
	if err != nil {
		return nil, nil, err
	}
	var all []model.Hit
	for i, l := range path {
		op, ok := sc.op(l)
		if !ok {
			return nil, nil, fmt.Errorf("DIVERGED: step %d label %q not in alphabet", i, l)
		}
		en, _, _, hits := r.Do(op)
		if !en {
			return nil, nil, fmt.Errorf("DIVERGED: step %d op %q not enabled on replay", i, l)
		}
		all = append(all, hits...)
	}
	return r, all, nil
}

func respSummary(o model.Obs) string {
	if o.Err != "" {
		return o.Err
	}
	return fmt.Sprintf("ok/%d/%d", len(o.Msgs), len(o.IDs))
}

func (wk *Worker) Run(t Task) (res Result) {
	res.Task = t
	sc := wk.scen[t.Scen]
	if sc == nil {
		res.Err = "unknown scenario " + t.Scen
		return
	}
	defer func() {
		if p := recover(); p != nil {
			res.Err = fmt.Sprintf("PANIC in harness: %v", p)
		}
	}()
	if t.PathOnly {
		r, err := wk.start(sc)
		if err != nil {
			res.Err = err.Error()
			return
		}
		for _, l := range t.Path {
			op, ok := sc.op(l)
			if !ok {
				res.Err = "unknown label " + l
				return
			}
			en, _, obs, hits := r.Do(op)
			if !en {
				continue
			}
			res.Transitions++
			if len(obs.Msgs) > 0 {
				res.Succ = append(res.Succ, Succ{Label: l, NMsgs: len(obs.Msgs), Resp: respSummary(obs)})
			}
			if len(hits) > 0 {
				res.Succ = append(res.Succ, Succ{Label: l, Hits: hits, Resp: respSummary(obs)})
				return
			}
		}
		res.DrainHits, res.DrainOps = r.Drain()
		return
	}
	r, hits, err := wk.Replay(sc, t.Path)
	if err != nil {
		res.Err = err.Error()
		return
	}
	if len(hits) > 0 && !sc.PastForeign {
		res.Err = fmt.Sprintf("DIVERGED: replay of an accepted path produced hits: %v", hits)
		return
	}
	key, snap, err := StateKey(r)
	if err != nil {
		res.Err = err.Error()
		return
	}
	if t.Key != "" {
		res.KeyChecked = true
		if key != t.Key {
			res.Err = fmt.Sprintf("SELFTEST: state reached by replay has key %s, by restore+op %s (path %v)", key, t.Key, t.Path)
			return
		}
	}
	m0 := r.M.Clone()
	back := func() error {
		if err := wk.W.Restore(snap); err != nil {
			return err
		}
		r.M = m0.Clone()
		return nil
	}
	if sc.Drain {
		res.DrainHits, res.DrainOps = r.Drain()
		if err := back(); err != nil {
			res.Err = err.Error()
			return
		}
	}
	if sc.Converge {
		for _, variant := range []string{"delete-all", "ack-all"} {
			h, n := r.Converge(variant)
			res.DrainHits = append(res.DrainHits, h...)
			res.DrainOps += n
			if err := back(); err != nil {
				res.Err = err.Error()
				return
			}
		}
	}
	if t.Drain {
		return
	}
	for _, op := range sc.Alphabet {
		en, _, obs, hits := r.Do(op)
		if !en {
			continue
		}
		res.Transitions++
		k2, _, err := StateKey(r)
		if err != nil {
			res.Err = err.Error()
			return
		}
		res.Succ = append(res.Succ, Succ{Label: op.Label(), Key: k2, Hits: hits, NMsgs: len(obs.Msgs), Resp: respSummary(obs)})
		if err := back(); err != nil {
			res.Err = err.Error()
			return
		}
	}
	return
}

// Drain: pull past every backoff on every live subscription, acknowledge
// everything, sweep dead letters; at the end nothing may still be owed.
func (r *Runner) Drain() (hits []model.Hit, ops int) {
	do := func(op model.Op) (bool, model.Obs) {
		en, _, obs, h := r.Do(op)
		if en {
			ops++
			hits = append(hits, h...)
		}
		return en, obs
	}
	subs := make([]string, 0)
	for _, s := range r.M.Cfg.Subs {
		subs = append(subs, s.Name)
	}
	sort.Strings(subs)
	for round := 0; round < 6; round++ {
		do(model.Op{K: "tick", Tgt: "lease++"})
		do(model.Op{K: "sweepDL", Max: 100})
		progress := false
		for _, sn := range subs {
			if s := r.M.Subs[sn]; s == nil || !s.Live {
				continue
			}
			for i := 0; i < 40; i++ {
				en, obs := do(model.Op{K: "pull", Sub: sn, Max: 100})
				if !en || len(obs.Msgs) == 0 {
					break
				}
				progress = true
				do(model.Op{K: "ack", Sub: sn, Sel: "all"})
			}
		}
		if len(hits) > 0 {
			return
		}
		if !progress {
			if len(r.M.Owed(model.Iv{Lo: r.W.Now(), Hi: r.W.Now()})) == 0 {
				break
			}
		}
	}
	now := r.W.Now()
	owed := r.M.Owed(model.Iv{Lo: now, Hi: now})
	names := make([]string, 0, len(owed))
	for n := range owed {
		names = append(names, n)
	}
	sort.Strings(names)
	for _, n := range names {
		props := []string{"C01"}
		if r.M.Subs[n].Cfg.Ordered {
			props = append(props, "C05")
		}
		hits = append(hits, model.Hit{Rule: "drain-stuck", Props: props, Text: fmt.Sprintf("after draining (pulling past every backoff and acknowledging everything) %s is still owed %v", n, owed[n])})
	}
	return
}

// ServeWorker is the worker main loop: tasks on stdin, results on stdout.
func ServeWorker(scens []*Scenario, in io.Reader, out io.Writer) error {
	wk, err := NewWorker(scens)
	if err != nil {
		return err
	}
	defer wk.Close()
	rd := bufio.NewReaderSize(in, 1<<20)
	enc := json.NewEncoder(out)
	for {
		line, err := rd.ReadBytes('\n')
		if len(line) > 0 {
			var t Task
			if jerr := json.Unmarshal(line, &t); jerr != nil {
				return jerr
			}
			res := wk.Run(t)
			io.WriteString(out, "@@")
			if eerr := enc.Encode(res); eerr != nil {
				return eerr
			}
		}
		if err != nil {
			if err == io.EOF {
				return nil
			}
			return err
		}
	}
}

// ---------------------------------------------------------------------------
// coordinator side

type Violation struct {
	Scen string
	Path []string
	Hit  model.Hit
}

type Stats struct {
	States        int
	Transitions   int
	DrainRuns     int
	DrainOps      int
	KeyChecks     int
	MaxDepth      int
	PerOp         map[string]int
	Responses     map[string]int
	RuleHits      map[string]int // all rule hits by rule (incl. foreign)
	Foreign       map[string]int
	NonEmptyPulls int
	Exhaustive    bool
	Levels        []int
	Wall          float64
	Samples       [][]string
	ForeignEx     []Violation
	foreignAll    []Violation
	Promoted      int
	// StateDependent: tasks whose outcome differed between a warm worker and a
	// freshly started one (process-global state leaking between executions)
	StateDependent int
	Unconfirmed    int
}

type proc struct {
	cmd  *exec.Cmd
	in   io.WriteCloser
	out  *bufio.Reader
	exe  string
	args []string
	env  []string
}

// restart replaces the worker process by a fresh one (clean process-global state).
func (p *proc) restart() error {
	p.in.Close()
	p.cmd.Process.Kill()
	p.cmd.Wait()
	np, err := startProc(p.exe, p.args, p.env)
	if err != nil {
		return err
	}
	*p = *np
	return nil
}

func startProc(exe string, args []string, env []string) (*proc, error) {
	cmd := exec.Command(exe, args...)
	cmd.Env = append(os.Environ(), env...)
	cmd.Stderr = os.Stderr
	in, err := cmd.StdinPipe()
	if err != nil {
		return nil, err
	}
	out, err := cmd.StdoutPipe()
	if err != nil {
		return nil, err
	}
	if err := cmd.Start(); err != nil {
		return nil, err
	}
	return &proc{cmd: cmd, in: in, out: bufio.NewReaderSize(out, 1<<20), exe: exe, args: args, env: env}, nil
}

// TaskTimeout: real-time limit for one task (a path replay plus one expansion
// takes milliseconds to seconds; only code that hangs or busy-loops gets here).
var TaskTimeout = 4 * time.Minute

func (p *proc) do(t Task) (Result, error) {
	type rr struct {
		r   Result
		err error
	}
	ch := make(chan rr, 1)
	go func() {
		r, err := p.do1(t)
		ch <- rr{r, err}
	}()
	select {
	case x := <-ch:
		return x.r, x.err
	case <-time.After(TaskTimeout):
		p.cmd.Process.Kill()
		return Result{}, fmt.Errorf("HANG: the code under test did not return within %v while running path %v", TaskTimeout, t.Path)
	}
}

func (p *proc) do1(t Task) (Result, error) {
	b, _ := json.Marshal(t)
	b = append(b, '\n')
	if _, err := p.in.Write(b); err != nil {
		return Result{}, err
	}
	for {
		line, err := p.out.ReadBytes('\n')
		if err != nil {
			return Result{}, fmt.Errorf("worker died: %v (last %q) while running path %v", err, line, append(append([]string{}, t.Path...)))
		}
		if !strings.HasPrefix(string(line), "@@") {
			continue
		}
		var r Result
		if err := json.Unmarshal(line[2:], &r); err != nil {
			return Result{}, err
		}
		return r, nil
	}
}

// Explore runs the level-synchronous BFS of one scenario over nWorkers worker
// processes.  deadline (zero = none) ends the run early with Exhaustive=false.
func Explore(sc *Scenario, exe string, workerArgs []string, nWorkers int, deadline time.Time, maxViol int) (Stats, []Violation, error) {
	st := Stats{PerOp: map[string]int{}, Responses: map[string]int{}, RuleHits: map[string]int{}, Foreign: map[string]int{}, Exhaustive: true}
	t0 := time.Now()
	procs := make([]*proc, nWorkers)
	for i := range procs {
		p, err := startProc(exe, workerArgs, []string{"VERIF_WORKER=1", "GOMAXPROCS=2"})
		if err != nil {
			return st, nil, err
		}
		procs[i] = p
	}
	defer func() {
		for _, p := range procs {
			p.in.Close()
			p.cmd.Wait()
		}
	}()
	var viol []Violation
	seen := map[string]bool{}
	type item struct {
		path []string
		key  string
	}
	frontier := []item{{nil, ""}}
	var fatal error
	var mu sync.Mutex
	owns := func(h model.Hit) bool {
		for _, p := range h.Props {
			if p == sc.Prop {
				return true
			}
		}
		for _, r := range sc.AlsoOwn {
			if r == h.Rule && len(h.Props) > 0 {
				return true
			}
		}
		return false
	}
	for depth := 0; depth <= sc.Depth && len(frontier) > 0 && fatal == nil; depth++ {
		st.Levels = append(st.Levels, len(frontier))
		st.MaxDepth = depth
		last := depth == sc.Depth
		if last && !sc.Drain && !sc.Converge {
			break
		}
		tasks := make(chan item, len(frontier))
		for _, it := range frontier {
			tasks <- it
		}
		close(tasks)
		var next []item
		var wg sync.WaitGroup
		for _, p := range procs {
			wg.Add(1)
			go func(p *proc) {
				defer wg.Done()
				for it := range tasks {
					mu.Lock()
					stop := fatal != nil || (!deadline.IsZero() && time.Now().After(deadline)) || len(viol) >= maxViol
					if stop && fatal == nil && len(viol) < maxViol {
						st.Exhaustive = false
					}
					mu.Unlock()
					if stop {
						continue
					}
					res, err := p.do(Task{Scen: sc.ID, Path: it.path, Key: it.key, Drain: last})
					if err == nil && (strings.HasPrefix(res.Err, "DIVERGED") || strings.HasPrefix(res.Err, "SELFTEST")) {
						// the same history behaved differently in this (warm) worker than
						// where it was discovered: retry once in a fresh process
						if rerr := p.restart(); rerr == nil {
							res, err = p.do(Task{Scen: sc.ID, Path: it.path, Key: "", Drain: last})
						}
						mu.Lock()
						st.StateDependent++
						mu.Unlock()
						if err == nil && res.Err != "" {
							mu.Lock()
							st.Exhaustive = false
							mu.Unlock()
							continue
						}
					}
					mu.Lock()
					if err != nil {
						fatal = err
						mu.Unlock()
						continue
					}
					if res.Err != "" {
						fatal = fmt.Errorf("%s", res.Err)
						mu.Unlock()
						continue
					}
					if res.KeyChecked {
						st.KeyChecks++
					}
					st.Transitions += res.Transitions
					if sc.Drain || sc.Converge {
						st.DrainRuns++
						st.DrainOps += res.DrainOps
					}
					for _, h := range res.DrainHits {
						st.RuleHits[h.Rule]++
						if owns(h) {
							viol = append(viol, Violation{Scen: sc.ID, Path: append(append([]string{}, it.path...), "<drain>"), Hit: h})
						} else {
							st.Foreign[h.Rule]++
							if len(st.ForeignEx) < 8 {
								st.ForeignEx = append(st.ForeignEx, Violation{Scen: sc.ID, Path: append(append([]string{}, it.path...), "<drain>"), Hit: h})
							}
						}
					}
					for _, s := range res.Succ {
						opk := s.Label
						if i := strings.IndexByte(opk, '('); i > 0 {
							opk = opk[:i]
						}
						st.PerOp[opk]++
						st.Responses[opk+":"+s.Resp]++
						if s.NMsgs > 0 {
							st.NonEmptyPulls++
						}
						path := append(append([]string{}, it.path...), s.Label)
						if len(s.Hits) > 0 {
							allForeign := true
							for _, h := range s.Hits {
								st.RuleHits[h.Rule]++
								if owns(h) {
									allForeign = false
									viol = append(viol, Violation{Scen: sc.ID, Path: path, Hit: h})
								} else {
									st.Foreign[h.Rule]++
									if sc.Metamorphic && len(st.foreignAll) < 200 && len(h.Props) > 0 {
										st.foreignAll = append(st.foreignAll, Violation{Scen: sc.ID, Path: path, Hit: h})
									}
									if len(st.ForeignEx) < 8 {
										st.ForeignEx = append(st.ForeignEx, Violation{Scen: sc.ID, Path: path, Hit: h})
									}
								}
							}
							if !(sc.PastForeign && allForeign) {
								continue // never explore beyond a disagreement
							}
						}
						if !seen[s.Key] {
							next = append(next, item{path, s.Key})
						}
					}
					mu.Unlock()
				}
			}(p)
		}
		wg.Wait()
		// deterministic order of the next level regardless of worker timing
		// (the representative of a state is its lexicographically smallest path)
		sort.Slice(next, func(i, j int) bool { return strings.Join(next[i].path, "\x00") < strings.Join(next[j].path, "\x00") })
		frontier = frontier[:0:0]
		for _, it := range next {
			if seen[it.key] {
				continue
			}
			seen[it.key] = true
			frontier = append(frontier, it)
			if len(st.Samples) < 3 || (len(it.path) == sc.Depth && len(st.Samples) < 6) {
				st.Samples = append(st.Samples, it.path)
			}
		}
		if !st.Exhaustive {
			break
		}
	}
	// metamorphic promotion
	if sc.Metamorphic && fatal == nil {
		for _, fv := range st.foreignAll {
			var plain []string
			hadJob := false
			for _, l := range fv.Path {
				if strings.HasPrefix(l, "job(") {
					hadJob = true
					continue
				}
				plain = append(plain, l)
			}
			if !hadJob && sc.MetamorphicReverse {
				// the other direction: the disagreement shows on a history WITHOUT jobs; if it
				// goes away when the scenario's jobs run (twice over) just before the last
				// request, what the client observes depends on whether they ran
				var withJobs []string
				withJobs = append(withJobs, fv.Path[:len(fv.Path)-1]...)
				for round := 0; round < 2; round++ {
					for _, op := range sc.Alphabet {
						if op.K == "job" {
							withJobs = append(withJobs, op.Label())
						}
					}
				}
				withJobs = append(withJobs, fv.Path[len(fv.Path)-1])
				res, err := procs[0].do(Task{Scen: sc.ID, Path: withJobs, PathOnly: true})
				if err != nil || res.Err != "" {
					continue
				}
				still := false
				for _, s := range res.Succ {
					for _, h := range s.Hits {
						if h.Rule == fv.Hit.Rule {
							still = true
						}
					}
				}
				if !still {
					h := fv.Hit
					h.Props = append(append([]string{}, h.Props...), sc.Prop)
					h.Text = "only while the maintenance jobs have NOT run (the same history with them spliced in before the last request has no such disagreement): " + h.Text
					viol = append(viol, Violation{Scen: sc.ID, Path: fv.Path, Hit: h})
					st.Promoted++
				}
				continue
			}
			if !hadJob {
				continue
			}
			res, err := procs[0].do(Task{Scen: sc.ID, Path: plain, PathOnly: true})
			if err != nil || res.Err != "" {
				continue
			}
			still := false
			for _, s := range res.Succ {
				for _, h := range s.Hits {
					if h.Rule == fv.Hit.Rule {
						still = true
					}
				}
			}
			if !still {
				h := fv.Hit
				h.Props = append(append([]string{}, h.Props...), sc.Prop)
				h.Text = "only with the maintenance jobs spliced in (the same history without them has no such disagreement): " + h.Text
				viol = append(viol, Violation{Scen: sc.ID, Path: fv.Path, Hit: h})
				st.Promoted++
			}
		}
	}
	st.States = len(seen) + 1
	st.Wall = time.Since(t0).Seconds()
	if fatal == nil && len(viol) > 0 && st.StateDependent > 0 {
		// something leaks between executions: only keep what reproduces from a cold start
		sort.Slice(viol, func(i, j int) bool { return len(viol[i].Path) < len(viol[j].Path) })
		var kept []Violation
		for i, v := range viol {
			if i >= 25 {
				break
			}
			if procs[0].restart() != nil {
				break
			}
			path := v.Path
			if n := len(path); n > 0 && path[n-1] == "<drain>" {
				path = path[:n-1]
			}
			res, err := procs[0].do(Task{Scen: sc.ID, Path: path, PathOnly: true})
			if err != nil || res.Err != "" {
				continue
			}
			ok := false
			for _, s := range res.Succ {
				for _, h := range s.Hits {
					if h.Rule == v.Hit.Rule {
						ok = true
					}
				}
			}
			for _, h := range res.DrainHits {
				if h.Rule == v.Hit.Rule {
					ok = true
				}
			}
			if ok {
				kept = append(kept, v)
			} else {
				st.Unconfirmed++
			}
		}
		viol = kept
	}
	sort.Slice(viol, func(i, j int) bool {
		if len(viol[i].Path) != len(viol[j].Path) {
			return len(viol[i].Path) < len(viol[j].Path)
		}
		return strings.Join(viol[i].Path, "\x00") < strings.Join(viol[j].Path, "\x00")
	})
	return st, viol, fatal
}

// Converge (C15): make everything dead, let more than the age threshold pass,
// then run the seven maintenance jobs round after round (rotation and direction
// of the order depend on the state) until a full round reclaims nothing.  At
// that fixpoint no job may still be failing and no dead row may be left.
func (r *Runner) Converge(variant string) (hits []model.Hit, ops int) {
	do := func(op model.Op) (model.Obs, bool) {
		en, _, obs, h := r.Do(op)
		if en {
			ops++
			for _, x := range h {
				if x.Rule != "job-failed" {
					hits = append(hits, x)
				}
			}
		}
		return obs, en
	}
	switch variant {
	case "delete-all":
		names := make([]string, 0)
		for n, s := range r.M.Subs {
			if s.Live {
				names = append(names, n)
			}
		}
		sort.Strings(names)
		for _, n := range names {
			do(model.Op{K: "deleteSub", Sub: n})
		}
		names = names[:0]
		for n, t := range r.M.Topics {
			if t.Live {
				names = append(names, n)
			}
		}
		sort.Strings(names)
		for _, n := range names {
			do(model.Op{K: "deleteTopic", Topic: n})
		}
	case "ack-all":
		dh, n := r.Drain()
		hits = append(hits, dh...)
		ops += n
	}
	if len(hits) > 0 {
		return
	}
	do(model.Op{K: "tick", Tgt: "+2h"})
	rot := r.M.Steps % len(model.JobNames)
	rev := (r.M.Steps/len(model.JobNames))%2 == 1
	order := make([]string, 0, len(model.JobNames))
	for i := range model.JobNames {
		j := (rot + i) % len(model.JobNames)
		if rev {
			j = (rot - i + 2*len(model.JobNames)) % len(model.JobNames)
		}
		order = append(order, model.JobNames[j])
	}
	failing := map[string]string{}
	// batch size 100 or 1 (state-dependent): "for any batch size" - with 1 a job
	// that cannot get past its first candidate stays stuck for good
	maxDel, rounds := 100, 40
	if r.M.Steps%2 == 1 {
		maxDel, rounds = 1, 400
	}
	for round := 0; round < rounds; round++ {
		progress := false
		for _, j := range order {
			if j == "delete-expired-subscriptions" && variant == "ack-all" {
				continue // live subscriptions must stay; TTL expiry is not under test here
			}
			obs, en := do(model.Op{K: "job", Job: j, MinAge: time.Hour, MaxDel: maxDel})
			if !en {
				continue
			}
			if obs.Err != "" {
				failing[j] = obs.Err
			} else {
				delete(failing, j)
				if obs.N > 0 {
					progress = true
				}
			}
		}
		if !progress {
			break
		}
	}
	if len(hits) > 0 {
		return
	}
	for j, e := range failing {
		hits = append(hits, model.Hit{Rule: "job-stuck", Props: []string{"C15"}, Text: fmt.Sprintf("[%s] at the fixpoint (no job reclaims anything any more, order %v, batch size %d) job %s still fails: %s", variant, order, maxDel, j, e)})
	}
	snap, err := r.W.Dump()
	if err != nil {
		panic(err)
	}
	count := func(table string, pred func(world.Row) bool) int {
		n := 0
		for _, row := range snap.Rows[table] {
			if pred == nil || pred(row) {
				n++
			}
		}
		return n
	}
	var left []string
	switch variant {
	case "delete-all":
		for _, t := range world.Tables {
			if n := count(t, nil); n > 0 {
				left = append(left, fmt.Sprintf("%s=%d", t, n))
			}
		}
	case "ack-all":
		ci := snap.Col("deliveries", "completed_at")
		ei := snap.Col("deliveries", "expires_at")
		now := r.W.Now()
		if n := count("deliveries", func(row world.Row) bool {
			if row[ci] != nil {
				return true
			}
			if e, ok := row[ei].(time.Time); ok && e.Before(now) {
				return true
			}
			return false
		}); n > 0 {
			left = append(left, fmt.Sprintf("completed-or-expired deliveries=%d", n))
		}
		// messages without any delivery
		mi := snap.Col("messages", "id")
		dm := snap.Col("deliveries", "message_id")
		has := map[string]bool{}
		for _, row := range snap.Rows["deliveries"] {
			has[fmt.Sprint(row[dm])] = true
		}
		if n := count("messages", func(row world.Row) bool { return !has[fmt.Sprint(row[mi])] }); n > 0 {
			left = append(left, fmt.Sprintf("messages without deliveries=%d", n))
		}
		di := snap.Col("subscriptions", "deleted_at")
		if n := count("subscriptions", func(row world.Row) bool { return row[di] != nil }); n > 0 {
			left = append(left, fmt.Sprintf("deleted subscriptions=%d", n))
		}
		// a deleted topic is dead only once no live subscription refers to it
		// (subscriptions outlive their topic and keep their backlog)
		ti := snap.Col("topics", "deleted_at")
		tid := snap.Col("topics", "id")
		st := snap.Col("subscriptions", "topic_id")
		sdl := snap.Col("subscriptions", "dead_letter_topic_id")
		ref := map[string]bool{}
		for _, row := range snap.Rows["subscriptions"] {
			if row[di] == nil {
				ref[fmt.Sprint(row[st])] = true
				if row[sdl] != nil {
					ref[fmt.Sprint(row[sdl])] = true
				}
			}
		}
		if n := count("topics", func(row world.Row) bool { return row[ti] != nil && !ref[fmt.Sprint(row[tid])] }); n > 0 {
			left = append(left, fmt.Sprintf("deleted topics=%d", n))
		}
	}
	if len(left) > 0 {
		hits = append(hits, model.Hit{Rule: "dead-rows-left", Props: []string{"C15"}, Text: fmt.Sprintf("[%s] at the fixpoint of the maintenance jobs (order %v) dead rows remain: %v", variant, order, left)})
	}
	return
}

// Skeleton is a long fixed life-cycle with every single (and, on a position
// grid, every pair of) extra alphabet operation inserted at every position.
type Skeleton struct {
	Scen     *Scenario // Alphabet must contain the skeleton ops and the deviation ops
	Path     []model.Op
	Deviate  []model.Op
	PairGrid int // pairs of deviations at positions that are multiples of PairGrid (0 = no pairs)
}

// RunSkeleton executes all deviation variants on the worker processes.
func RunSkeleton(sk *Skeleton, exe string, workerArgs []string, nWorkers int, deadline time.Time) (Stats, []Violation, error) {
	st := Stats{PerOp: map[string]int{}, Responses: map[string]int{}, RuleHits: map[string]int{}, Foreign: map[string]int{}, Exhaustive: true}
	t0 := time.Now()
	base := make([]string, len(sk.Path))
	for i, o := range sk.Path {
		base[i] = o.Label()
	}
	var paths [][]string
	paths = append(paths, base)
	ins := func(p []string, pos int, l string) []string {
		out := make([]string, 0, len(p)+1)
		out = append(out, p[:pos]...)
		out = append(out, l)
		return append(out, p[pos:]...)
	}
	for pos := 0; pos <= len(base); pos++ {
		for _, d := range sk.Deviate {
			paths = append(paths, ins(base, pos, d.Label()))
		}
	}
	if sk.PairGrid > 0 {
		for p1 := 0; p1 <= len(base); p1 += sk.PairGrid {
			for p2 := p1; p2 <= len(base); p2 += sk.PairGrid {
				for _, d1 := range sk.Deviate {
					for _, d2 := range sk.Deviate {
						paths = append(paths, ins(ins(base, p2, d2.Label()), p1, d1.Label()))
					}
				}
			}
		}
	}
	procs := make([]*proc, nWorkers)
	for i := range procs {
		p, err := startProc(exe, workerArgs, []string{"VERIF_WORKER=1", "GOMAXPROCS=2"})
		if err != nil {
			return st, nil, err
		}
		procs[i] = p
	}
	defer func() {
		for _, p := range procs {
			p.in.Close()
			p.cmd.Wait()
		}
	}()
	tasks := make(chan []string, len(paths))
	for _, p := range paths {
		tasks <- p
	}
	close(tasks)
	var mu sync.Mutex
	var viol []Violation
	var fatal error
	var wg sync.WaitGroup
	for _, p := range procs {
		wg.Add(1)
		go func(p *proc) {
			defer wg.Done()
			for path := range tasks {
				mu.Lock()
				stop := fatal != nil || (!deadline.IsZero() && time.Now().After(deadline))
				if stop && fatal == nil {
					st.Exhaustive = false
				}
				mu.Unlock()
				if stop {
					continue
				}
				res, err := p.do(Task{Scen: sk.Scen.ID, Path: path, PathOnly: true})
				mu.Lock()
				if err != nil {
					fatal = err
				} else if res.Err != "" {
					fatal = fmt.Errorf("%s", res.Err)
				} else {
					st.States++
					st.Transitions += res.Transitions + res.DrainOps
					st.DrainRuns++
					if len(path) > st.MaxDepth {
						st.MaxDepth = len(path)
					}
					for _, s := range res.Succ {
						if s.NMsgs > 0 {
							st.NonEmptyPulls++
						}
						for _, h := range s.Hits {
							st.RuleHits[h.Rule]++
							own := false
							for _, pr := range h.Props {
								if pr == sk.Scen.Prop {
									own = true
								}
							}
							if own {
								viol = append(viol, Violation{Scen: sk.Scen.ID, Path: append(append([]string{}, path...), "@"+s.Label), Hit: h})
							} else {
								st.Foreign[h.Rule]++
							}
						}
					}
					for _, h := range res.DrainHits {
						st.RuleHits[h.Rule]++
						own := false
						for _, pr := range h.Props {
							if pr == sk.Scen.Prop {
								own = true
							}
						}
						if own {
							viol = append(viol, Violation{Scen: sk.Scen.ID, Path: append(append([]string{}, path...), "<drain>"), Hit: h})
						} else {
							st.Foreign[h.Rule]++
						}
					}
				}
				mu.Unlock()
			}
		}(p)
	}
	wg.Wait()
	st.Samples = append(st.Samples, base)
	st.Wall = time.Since(t0).Seconds()
	return st, viol, fatal
}
