package hist

import (
	"context"
	"io"
	"sync"
	"testing/synctest"
	"time"

	"google.golang.org/grpc/metadata"

	"go.6river.tech/mmmbbb/grpc/pubsubpb"
)

// fakePullStream is an in-process pubsubpb.Subscriber_StreamingPullServer: the
// real StreamingPull handler (stream wrapper + MessageStreamer) runs against it.
type fakePullStream struct {
	ctx  context.Context
	in   chan *pubsubpb.StreamingPullRequest
	mu   sync.Mutex
	sent []*pubsubpb.ReceivedMessage
	got  chan struct{} // signalled (non-blocking) at every Send
}

func (f *fakePullStream) SetHeader(metadata.MD) error  { return nil }
func (f *fakePullStream) SendHeader(metadata.MD) error { return nil }
func (f *fakePullStream) SetTrailer(metadata.MD)       {}
func (f *fakePullStream) Context() context.Context     { return f.ctx }
func (f *fakePullStream) SendMsg(m any) error          { return f.Send(m.(*pubsubpb.StreamingPullResponse)) }
func (f *fakePullStream) RecvMsg(m any) error          { return io.EOF }

func (f *fakePullStream) Recv() (*pubsubpb.StreamingPullRequest, error) {
	select {
	case r, ok := <-f.in:
		if !ok {
			return nil, io.EOF
		}
		return r, nil
	case <-f.ctx.Done():
		return nil, f.ctx.Err()
	}
}

func (f *fakePullStream) Send(r *pubsubpb.StreamingPullResponse) error {
	f.mu.Lock()
	f.sent = append(f.sent, r.ReceivedMessages...)
	f.mu.Unlock()
	if f.got != nil {
		select {
		case f.got <- struct{}{}:
		default:
		}
	}
	return nil
}

// streamSession opens a StreamingPull on the real handler, sends the given
// requests one after the other (letting everything settle in between), then
// ends the stream.  It returns everything the stream sent and the handler's
// final error.  Must run inside a synctest bubble on the bubble's main goroutine.
func streamSession(srv pubsubpb.SubscriberServer, base context.Context, reqs []*pubsubpb.StreamingPullRequest) (msgs []*pubsubpb.ReceivedMessage, marks []int, herr error) {
	var bs []func([]*pubsubpb.ReceivedMessage) *pubsubpb.StreamingPullRequest
	for _, r := range reqs {
		r := r
		bs = append(bs, func([]*pubsubpb.ReceivedMessage) *pubsubpb.StreamingPullRequest { return r })
	}
	return streamSessionDyn(srv, base, bs)
}

// streamSessionDyn: like streamSession, but every request is built when it is
// due, from what the stream has sent so far.
func streamSessionDyn(srv pubsubpb.SubscriberServer, base context.Context, reqs []func([]*pubsubpb.ReceivedMessage) *pubsubpb.StreamingPullRequest) (msgs []*pubsubpb.ReceivedMessage, marks []int, herr error) {
	ctx, cancel := context.WithCancel(base)
	f := &fakePullStream{ctx: ctx, in: make(chan *pubsubpb.StreamingPullRequest)}
	done := make(chan error, 1)
	go func() { done <- srv.StreamingPull(f) }()
	var early error
	finished := false
	for _, mk := range reqs {
		// marks[k]: how many messages the stream had sent when request k went in
		f.mu.Lock()
		marks = append(marks, len(f.sent))
		got := append([]*pubsubpb.ReceivedMessage(nil), f.sent...)
		f.mu.Unlock()
		r := mk(got)
		if r == nil {
			// a step that sends nothing on the stream (it acted elsewhere, e.g. a Seek)
			settle()
			continue
		}
		select {
		case f.in <- r:
		case early = <-done:
			finished = true
		}
		if finished {
			break
		}
		settle()
	}
	cancel()
	if !finished {
		early = <-done
	}
	settle()
	f.mu.Lock()
	defer f.mu.Unlock()
	return f.sent, marks, early
}

// settle lets the handler's goroutines run to their next real wait.  The world's
// statement hook sleeps 1µs of virtual time at every driver point (that sleep is
// a durable block, so synctest.Wait alone returns in the middle of a
// transaction); 2ms of virtual time is room for 2000 driver points, far more
// than one request triggers, and far less than any timer the streamer arms.
func settle() {
	for i := 0; i < 4; i++ {
		synctest.Wait()
		time.Sleep(500 * time.Microsecond)
	}
	synctest.Wait()
}

// streamUntilFirst opens a StreamingPull on the real handler and waits (blocked
// on a channel, i.e. durably for the bubble) until the stream has sent at least
// one message, the handler ended, or maxWait of virtual time passed; then it
// ends the stream.  This is the streaming counterpart of a blocking Pull.
func streamUntilFirst(srv pubsubpb.SubscriberServer, base context.Context, first *pubsubpb.StreamingPullRequest, maxWait time.Duration) ([]*pubsubpb.ReceivedMessage, error) {
	ctx, cancel := context.WithCancel(base)
	defer cancel()
	f := &fakePullStream{ctx: ctx, in: make(chan *pubsubpb.StreamingPullRequest), got: make(chan struct{}, 1)}
	done := make(chan error, 1)
	go func() { done <- srv.StreamingPull(f) }()
	timer := time.NewTimer(maxWait)
	defer timer.Stop()
	var herr error
	finished := false
	select {
	case f.in <- first:
		select {
		case <-f.got:
		case herr = <-done:
			finished = true
		case <-timer.C:
		}
	case herr = <-done:
		finished = true
	}
	cancel()
	if !finished {
		herr = <-done
	}
	f.mu.Lock()
	defer f.mu.Unlock()
	return f.sent, herr
}
