// Package sched is the controlled scheduler + stateless DFS explorer (E2).
//
// Threads are real goroutines running real repository code inside a
// testing/synctest bubble.  Whenever a thread reaches a *gate* (a transaction
// boundary in the vsql driver, or a sync / atomic operation in a file that was
// rewritten onto the shims) it parks on a private channel.  The explorer calls
// synctest.Wait() – which returns exactly when every goroutine of the bubble is
// parked at a gate, blocked in a select / channel operation, or finished – then
// releases exactly one enabled thread, and so on.  A schedule is the sequence of
// choices; the DFS enumerates all of them (optionally up to a preemption bound).
package sched

import (
	"fmt"
	"runtime"
	"sort"
	"strings"
	"sync"
	"testing/synctest"
)

type parked struct {
	id      string
	kind    string
	enabled func() bool
	ch      chan struct{}
}

// Run is one controlled execution.
type Run struct {
	mu      sync.Mutex
	parked  map[string]*parked
	goids   map[int64]string
	spawned map[string]int
	running int
	done    map[string]bool
	started []string
	// Trace of this execution
	Points  []Point
	Choices []int
	last    string
	// Free: when set, gates do not park (cleanup phase)
	free bool
	// RoleThreads: goroutines that are neither registered nor labelled (e.g.
	// errgroup closures inside repository code) are also controlled, identified
	// by the outermost repository function on their stack
	RoleThreads bool
	owner       int64
	// Log of released gates "thread:kind"
	Log []string
}

// Point is one scheduling decision.
type Point struct {
	Enabled []string
	Kinds   []string
	// LastEnabled: the thread that ran last is among Enabled (choosing another one is a preemption)
	LastEnabled bool
}

var (
	curMu sync.Mutex
	cur   *Run
)

func current() *Run {
	curMu.Lock()
	defer curMu.Unlock()
	return cur
}

func setCurrent(r *Run) {
	curMu.Lock()
	cur = r
	curMu.Unlock()
}

func goid() int64 {
	var buf [64]byte
	n := runtime.Stack(buf[:], false)
	// "goroutine 123 [running]:"
	var id int64
	for _, c := range buf[len("goroutine "):n] {
		if c < '0' || c > '9' {
			break
		}
		id = id*10 + int64(c-'0')
	}
	return id
}

// role names an unregistered goroutine by the outermost repository function on
// its stack (e.g. the errgroup closures of MessageStreamer.Go).
func role() string {
	pcs := make([]uintptr, 64)
	n := runtime.Callers(2, pcs)
	frames := runtime.CallersFrames(pcs[:n])
	outer := ""
	for {
		f, more := frames.Next()
		if strings.Contains(f.Function, "go.6river.tech/mmmbbb/") {
			outer = f.Function
		}
		if !more {
			break
		}
	}
	if i := strings.LastIndex(outer, "/"); i >= 0 {
		outer = outer[i+1:]
	}
	if outer == "" {
		outer = "anon"
	}
	return outer
}

// Go starts a named thread.  Must be called from inside the bubble.
func (r *Run) Go(name string, f func()) {
	r.mu.Lock()
	r.started = append(r.started, name)
	r.mu.Unlock()
	go func() {
		r.mu.Lock()
		r.goids[goid()] = name
		r.mu.Unlock()
		// every thread starts parked so that the explorer decides who goes first
		r.gate(name, "start", nil)
		defer func() {
			r.mu.Lock()
			r.done[name] = true
			r.mu.Unlock()
		}()
		f()
	}()
}

// Spawn is used by the shim for `go f()` statements in rewritten files.
func Spawn(f func()) {
	r := current()
	if r == nil {
		go f()
		return
	}
	parent := r.whoami("")
	r.mu.Lock()
	r.spawned[parent]++
	name := fmt.Sprintf("%s/go%d", parent, r.spawned[parent])
	r.mu.Unlock()
	r.Go(name, f)
}

func (r *Run) whoami(label string) string {
	id := goid()
	r.mu.Lock()
	name, ok := r.goids[id]
	r.mu.Unlock()
	if ok {
		return name
	}
	ro := role()
	if label != "" && !r.RoleThreads {
		return label + "#" + ro
	}
	return ro
}

// Gate parks the calling goroutine (if an execution is being controlled) until
// the explorer releases it.  label is an optional context-derived thread label.
func Gate(label, kind string, enabled func() bool) {
	r := current()
	if r == nil {
		return
	}
	id := goid()
	r.mu.Lock()
	free := r.free
	_, reg := r.goids[id]
	role := r.RoleThreads
	owner := r.owner
	r.mu.Unlock()
	if free || id == owner {
		return
	}
	if !reg && label == "" && !role {
		return
	}
	r.gate(r.whoami(label), kind, enabled)
}

// Labelled reports whether the calling goroutine is a registered thread.
func Registered() bool {
	r := current()
	if r == nil {
		return false
	}
	id := goid()
	r.mu.Lock()
	defer r.mu.Unlock()
	_, ok := r.goids[id]
	return ok
}

func (r *Run) gate(id, kind string, enabled func() bool) {
	r.mu.Lock()
	if r.free {
		r.mu.Unlock()
		return
	}
	if _, dup := r.parked[id]; dup {
		r.mu.Unlock()
		panic("sched: two goroutines parked under the same identity " + id)
	}
	p := &parked{id: id, kind: kind, enabled: enabled, ch: make(chan struct{})}
	r.parked[id] = p
	r.mu.Unlock()
	<-p.ch
}

func (r *Run) enabledList() []*parked {
	r.mu.Lock()
	defer r.mu.Unlock()
	var out []*parked
	for _, p := range r.parked {
		if p.enabled == nil || p.enabled() {
			out = append(out, p)
		}
	}
	sort.Slice(out, func(i, j int) bool {
		// the thread that ran last comes first (continuing it is not a preemption)
		if (out[i].id == r.last) != (out[j].id == r.last) {
			return out[i].id == r.last
		}
		return out[i].id < out[j].id
	})
	return out
}

// Blocked lists parked-but-disabled gates (deadlock diagnosis).
func (r *Run) Blocked() []string {
	r.mu.Lock()
	defer r.mu.Unlock()
	var out []string
	for _, p := range r.parked {
		if p.enabled != nil && !p.enabled() {
			out = append(out, p.id+":"+p.kind)
		}
	}
	sort.Strings(out)
	return out
}

func (r *Run) Done(name string) bool {
	r.mu.Lock()
	defer r.mu.Unlock()
	return r.done[name]
}

func (r *Run) AllDone() bool {
	r.mu.Lock()
	defer r.mu.Unlock()
	for _, n := range r.started {
		if !r.done[n] {
			return false
		}
	}
	return true
}

// ErrDiverged: a replayed prefix met a different set of enabled threads.
type ErrDiverged struct{ Msg string }

func (e ErrDiverged) Error() string { return "DIVERGED: " + e.Msg }

// Step lets everything settle and then releases one enabled thread according to
// choice.  It returns false when nothing is enabled (quiescence).
func (r *Run) step(choice int, expect *Point) (bool, error) {
	synctest.Wait()
	en := r.enabledList()
	if len(en) == 0 {
		return false, nil
	}
	pt := Point{}
	for _, p := range en {
		pt.Enabled = append(pt.Enabled, p.id)
		pt.Kinds = append(pt.Kinds, p.kind)
	}
	pt.LastEnabled = len(en) > 0 && en[0].id == r.last
	if expect != nil {
		if strings.Join(expect.Enabled, ",") != strings.Join(pt.Enabled, ",") || strings.Join(expect.Kinds, ",") != strings.Join(pt.Kinds, ",") {
			return false, ErrDiverged{fmt.Sprintf("at decision %d expected %v %v, got %v %v", len(r.Points), expect.Enabled, expect.Kinds, pt.Enabled, pt.Kinds)}
		}
	}
	if choice >= len(en) {
		return false, ErrDiverged{fmt.Sprintf("at decision %d choice %d out of range (%d enabled: %v)", len(r.Points), choice, len(en), pt.Enabled)}
	}
	r.Points = append(r.Points, pt)
	r.Choices = append(r.Choices, choice)
	p := en[choice]
	r.mu.Lock()
	delete(r.parked, p.id)
	r.last = p.id
	r.Log = append(r.Log, p.id+":"+p.kind)
	r.mu.Unlock()
	close(p.ch)
	return true, nil
}

// RunToQuiescence replays prefix (checking it against expected points when
// given) and then always takes choice 0 until nothing is enabled.
func (r *Run) RunToQuiescence(prefix []int, expect []Point) error {
	for i := 0; ; i++ {
		c := 0
		var ex *Point
		if i < len(prefix) {
			c = prefix[i]
			if i < len(expect) {
				ex = &expect[i]
			}
		}
		ok, err := r.step(c, ex)
		if err != nil {
			return err
		}
		if !ok {
			if i < len(prefix) {
				return ErrDiverged{fmt.Sprintf("quiescent after %d decisions, prefix has %d", i, len(prefix))}
			}
			return nil
		}
		if i > 100000 {
			return fmt.Errorf("sched: more than 100000 decisions (livelock?)")
		}
	}
}

// Release switches to free-running mode: parked goroutines are released and no
// gate parks any more.  Used for the cleanup phase of an execution.
func (r *Run) Release() {
	r.mu.Lock()
	r.free = true
	ps := r.parked
	r.parked = map[string]*parked{}
	r.mu.Unlock()
	for _, p := range ps {
		close(p.ch)
	}
}

// SetFree switches between free-running mode (gates do not park; used to bring
// the system into a warm quiescent state before the explored part starts) and
// controlled mode.  Call it only while every goroutine is durably blocked.
func (r *Run) SetFree(on bool) {
	if on {
		r.Release()
		return
	}
	r.mu.Lock()
	r.free = false
	r.mu.Unlock()
}

func NewRun() *Run {
	r := &Run{parked: map[string]*parked{}, goids: map[int64]string{}, spawned: map[string]int{}, done: map[string]bool{}, owner: goid()}
	setCurrent(r)
	return r
}

func (r *Run) Finish() { setCurrent(nil) }

// Preemptions counts the decisions where the last-run thread was enabled but
// another one was chosen.
func Preemptions(points []Point, choices []int) int {
	n := 0
	for i, p := range points {
		if p.LastEnabled && choices[i] != 0 {
			n++
		}
	}
	return n
}

// ---------------------------------------------------------------------------
// DFS

// Exec runs one execution with the given choice prefix and returns its trace.
// The callee must create a Run, start threads, call RunToQuiescence(prefix,
// expect), evaluate its oracle and clean up.
type ExecFunc func(prefix []int, expect []Point) (points []Point, choices []int, verdict string, err error)

type Result struct {
	Executions int
	Decisions  int
	Diverged   int
	// DivergedExample: the first divergence message (diagnosis)
	DivergedExample string
	MaxBound   int
	Complete   bool
	Outcomes   map[string]int
	Violations []Found
	Samples    [][]string
	MaxDepth   int
}

type Found struct {
	Choices []int
	Verdict string
	Log     []string
}

// Explore enumerates every schedule with at most `bound` preemptions (bound < 0:
// unbounded).  verdicts starting with "VIOLATION" are collected (after being
// confirmed `confirm` times).
func Explore(exec ExecFunc, bound int, maxExec int, stop func() bool) (Result, error) {
	res := Result{Outcomes: map[string]int{}, Complete: true, MaxBound: bound}
	type item struct {
		prefix []int
		expect []Point
	}
	stack := []item{{nil, nil}}
	for len(stack) > 0 {
		if (maxExec > 0 && res.Executions >= maxExec) || (stop != nil && stop()) {
			res.Complete = false
			break
		}
		it := stack[len(stack)-1]
		stack = stack[:len(stack)-1]
		var points []Point
		var choices []int
		var verdict string
		var err error
		for attempt := 0; attempt < 3; attempt++ {
			points, choices, verdict, err = exec(it.prefix, it.expect)
			if _, div := err.(ErrDiverged); !div {
				break
			}
		}
		if err != nil {
			if _, div := err.(ErrDiverged); div {
				res.Diverged++
				if res.DivergedExample == "" {
					res.DivergedExample = fmt.Sprintf("prefix %v: %v", it.prefix, err)
				}
				res.Complete = false
				continue
			}
			return res, err
		}
		res.Executions++
		res.Decisions += len(points)
		if len(points) > res.MaxDepth {
			res.MaxDepth = len(points)
		}
		res.Outcomes[verdict]++
		if strings.HasPrefix(verdict, "VIOLATION") && len(res.Violations) < 20 {
			res.Violations = append(res.Violations, Found{Choices: append([]int(nil), choices...), Verdict: verdict})
		}
		if len(res.Samples) < 3 {
			var s []string
			for i, p := range points {
				s = append(s, p.Enabled[choices[i]]+":"+p.Kinds[choices[i]])
			}
			res.Samples = append(res.Samples, s)
		}
		// children: deviate at every decision after the prefix
		for i := len(points) - 1; i >= len(it.prefix); i-- {
			p := points[i]
			cost := Preemptions(points[:i], choices[:i])
			for alt := len(p.Enabled) - 1; alt >= 1; alt-- {
				c := cost
				if p.LastEnabled {
					c++
				}
				if bound >= 0 && c > bound {
					continue
				}
				np := append(append([]int{}, choices[:i]...), alt)
				stack = append(stack, item{np, append([]Point{}, points[:i+1]...)})
			}
		}
	}
	return res, nil
}
