// Package vsql is a database/sql driver ("vsqlite") that wraps the cgo
// mattn/go-sqlite3 driver the repository itself uses.  It adds nothing to the
// SQL that is executed; it only gives the harness a seam at every statement
// and every transaction boundary:
//
//   - a Hook is called before BEGIN, before every Exec/Query, before COMMIT and
//     after COMMIT/ROLLBACK.  The hook can log, advance virtual time, park the
//     calling goroutine (scheduler gate) or return an error (fault injection).
//   - an error returned for COMMIT rolls the real transaction back, i.e. models
//     "the commit failed", never "the commit outcome is unknown".
package vsql

import (
	"context"
	"database/sql"
	"database/sql/driver"
	"sync"

	sqlite3 "github.com/mattn/go-sqlite3"
)

// Kind of seam point.
type Kind int

const (
	Begin       Kind = iota // before BEGIN IMMEDIATE
	Stmt                    // before an Exec / Query (inside or outside a tx)
	Commit                  // before COMMIT
	Committed               // after a successful COMMIT
	RolledBack              // after ROLLBACK (explicit or because COMMIT was failed)
	StmtDone                // after an Exec / Query returned (its error, if any, is not visible here)
	BeginFailed             // the BEGIN itself failed after the Begin point was passed (no transaction is open)
)

func (k Kind) String() string {
	return [...]string{"begin", "stmt", "commit", "committed", "rolledback", "stmtdone", "beginfailed"}[k]
}

// Point describes one seam crossing.
type Point struct {
	Kind  Kind
	InTx  bool
	Query string
	Ctx   context.Context
}

// Hook is consulted at every point; a non-nil error fails the operation at
// that point (only honoured for Begin, Stmt and Commit).
type Hook func(p Point) error

var (
	hookMu sync.RWMutex
	hook   Hook
)

// SetHook installs (or with nil removes) the process-wide hook.
func SetHook(h Hook) {
	hookMu.Lock()
	hook = h
	hookMu.Unlock()
}

func call(p Point) error {
	hookMu.RLock()
	h := hook
	hookMu.RUnlock()
	if h == nil {
		return nil
	}
	return h(p)
}

type ctxKey struct{}

// WithThread labels a context with a harness thread name.
func WithThread(ctx context.Context, name string) context.Context {
	return context.WithValue(ctx, ctxKey{}, name)
}

// Thread returns the label set by WithThread, or "".
func Thread(ctx context.Context) string {
	if ctx == nil {
		return ""
	}
	s, _ := ctx.Value(ctxKey{}).(string)
	return s
}

const DriverName = "vsqlite"

type drv struct{ inner *sqlite3.SQLiteDriver }

func init() { sql.Register(DriverName, &drv{inner: &sqlite3.SQLiteDriver{}}) }

func (d *drv) Open(dsn string) (driver.Conn, error) {
	c, err := d.inner.Open(dsn)
	if err != nil {
		return nil, err
	}
	return &conn{SQLiteConn: c.(*sqlite3.SQLiteConn)}, nil
}

type conn struct {
	*sqlite3.SQLiteConn
	inTx bool
}

func (c *conn) BeginTx(ctx context.Context, opts driver.TxOptions) (driver.Tx, error) {
	if err := call(Point{Kind: Begin, Ctx: ctx}); err != nil {
		return nil, err
	}
	t, err := c.SQLiteConn.BeginTx(ctx, opts)
	if err != nil {
		_ = call(Point{Kind: BeginFailed, Ctx: ctx})
		return nil, err
	}
	c.inTx = true
	return &tx{c: c, inner: t, ctx: ctx}, nil
}

func (c *conn) Begin() (driver.Tx, error) {
	return c.BeginTx(context.Background(), driver.TxOptions{})
}

func (c *conn) ExecContext(ctx context.Context, q string, args []driver.NamedValue) (driver.Result, error) {
	if err := call(Point{Kind: Stmt, InTx: c.inTx, Query: q, Ctx: ctx}); err != nil {
		return nil, err
	}
	res, err := c.SQLiteConn.ExecContext(ctx, q, args)
	_ = call(Point{Kind: StmtDone, InTx: c.inTx, Query: q, Ctx: ctx})
	return res, err
}

func (c *conn) QueryContext(ctx context.Context, q string, args []driver.NamedValue) (driver.Rows, error) {
	if err := call(Point{Kind: Stmt, InTx: c.inTx, Query: q, Ctx: ctx}); err != nil {
		return nil, err
	}
	rows, err := c.SQLiteConn.QueryContext(ctx, q, args)
	_ = call(Point{Kind: StmtDone, InTx: c.inTx, Query: q, Ctx: ctx})
	return rows, err
}

type tx struct {
	c     *conn
	inner driver.Tx
	ctx   context.Context
}

func (t *tx) Commit() error {
	if err := call(Point{Kind: Commit, InTx: true, Ctx: t.ctx}); err != nil {
		_ = t.inner.Rollback()
		t.c.inTx = false
		_ = call(Point{Kind: RolledBack, Ctx: t.ctx})
		return err
	}
	err := t.inner.Commit()
	t.c.inTx = false
	if err != nil {
		_ = call(Point{Kind: RolledBack, Ctx: t.ctx})
		return err
	}
	_ = call(Point{Kind: Committed, Ctx: t.ctx})
	return nil
}

func (t *tx) Rollback() error {
	err := t.inner.Rollback()
	t.c.inTx = false
	_ = call(Point{Kind: RolledBack, Ctx: t.ctx})
	return err
}
