#!/bin/bash
# usage: seedrun.sh <patch.diff> <tier> <ID> [<ID> ...]
# Applies a seeded change to /repo's working tree, runs the given checks, and ALWAYS
# restores the working tree afterwards (git checkout -- .).  Prints one summary line per check.
set -u
patch=$1; tier=$2; shift 2
cd /repo || exit 2
if [ -n "$(git status --porcelain)" ]; then echo "/repo working tree not clean"; exit 2; fi
git apply "$patch" || { echo "patch does not apply"; exit 2; }
trap 'git -C /repo checkout -- . ; git -C /repo clean -fdq' EXIT
for id in "$@"; do
  out=$(/verif/run $id $tier 2>&1); rc=$?
  n=$(echo "$out" | grep -c '^VIOLATION')
  first=$(echo "$out" | grep -A3 '^VIOLATION' | sed -n '2,4p' | tr '\n' ' ' | cut -c1-400)
  echo "SEEDRUN check=$id tier=$tier exit=$rc violations_shown=$n :: $first"
done
