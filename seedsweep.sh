#!/bin/bash
# usage: seedsweep.sh <tier> [suffix...]   -- runs every seeded change against its own property's check
V=$(cd "$(dirname "${BASH_SOURCE[0]}")" && pwd)
tier=${1:-quick}; shift
sfx=${@:-a b}
for s in $sfx; do
  for d in $V/seeded/C??-$s; do
    id=$(basename $d); prop=${id%-*}
    p=$d/patch.diff
    [ -f $d/patch.ported.diff ] && p=$d/patch.ported.diff
    echo "== $id"
    $V/seedrun.sh $p $tier $prop 2>&1 | cut -c1-300
  done
done
