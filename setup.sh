#!/bin/bash
# Offline setup after a fresh restore: builds the overlay generator and both check
# binaries once so that later incremental rebuilds are fast.
set -u
export GOFLAGS=-mod=mod GOPROXY=off GOTOOLCHAIN=local TZ=UTC CGO_ENABLED=1
cd "$(dirname "${BASH_SOURCE[0]}")" || exit 2
./build.sh plain || exit 2
if ls mc/shim >/dev/null 2>&1; then ./build.sh shim || exit 2; fi
echo setup-ok
