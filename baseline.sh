#!/bin/bash
# Runs the repository's own test suite (guard OFF: no tags, no overlay) with the
# repository's own toolchain and compares the passing set with BASELINE.json.
export GOFLAGS=-mod=mod GOPROXY=off
unset GOTOOLCHAIN
cd /repo || exit 2
out=$(mktemp /dev/shm/baseline.XXXXXX)
go test -json -vet=off -count=1 -timeout 25m ./... > $out 2>/dev/null
# actions.TestMessageStreamer_Go ("cancel with no messages") is timing-sensitive on a
# loaded machine even on the untouched tree: give the actions package up to two more
# runs and take the union of passes (the baseline itself was taken as 3 runs)
for i in 1 2; do
  if grep -q '"Action":"fail".*"Test":"TestMessageStreamer_Go' $out; then
    go test -json -vet=off -count=1 -timeout 25m ./actions/ >> $out 2>/dev/null
  fi
done
python3 - "$out" <<'PY'
import json,sys
passed=set()
for l in open(sys.argv[1]):
    try: e=json.loads(l)
    except Exception: continue
    if e.get('Action')=='pass' and e.get('Test'):
        passed.add(e['Package']+'::'+e['Test'])
base=set(json.load(open('/root/.vp/BASELINE.json'))['stable_pass'])
missing=sorted(base-passed)
print(f"baseline: {len(base)} expected, {len(base&passed)} passed, {len(missing)} missing")
for m in missing[:20]: print("  MISSING", m)
sys.exit(1 if missing else 0)
PY
rc=$?
rm -f $out
exit $rc
