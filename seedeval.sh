#!/bin/bash
# usage: seedeval.sh <tier> <seed-id> [<seed-id> ...]
# Evaluates stored seeds WITHOUT touching /repo's working tree: each seed is applied in a
# throw-away worktree of /repo's HEAD (under /tmp), the seed's own property check is run
# against it (VERIF_REPO), and the worktree is removed again.
set -u
V=$(cd "$(dirname "${BASH_SOURCE[0]}")" && pwd)
tier=$1; shift
for sid in "$@"; do
  d=$V/seeded/$sid; prop=${sid%-*}
  p=$d/patch.diff; [ -f $d/patch.ported.diff ] && p=$d/patch.ported.diff
  wt=/tmp/seedeval-$sid-$$
  git -C /repo worktree add --detach $wt HEAD >/dev/null 2>&1 || { echo "SEEDEVAL $sid cannot create worktree"; continue; }
  if git -C $wt apply $p 2>/dev/null; then
    $V/seedwt.sh $wt $tier $prop | sed "s/^SEEDWT [^ ]*/SEEDEVAL $sid/"
  else
    echo "SEEDEVAL $sid patch does not apply to HEAD"
  fi
  git -C /repo worktree remove --force $wt >/dev/null 2>&1
  rm -rf $V/.build/alt-$(echo -n "$wt" | md5sum | cut -c1-10)
done
git -C /repo worktree prune
