#!/bin/bash
# Rebuilds the overlay from /repo's current working tree and the check binary.
# usage: build.sh [shim]   -> prints nothing on success; exit 2 on build failure
set -u
export GOFLAGS=-mod=mod GOPROXY=off GOTOOLCHAIN=local TZ=UTC CGO_ENABLED=1
V=$(cd "$(dirname "${BASH_SOURCE[0]}")" && pwd)
B=$V/.build
# VERIF_REPO (default /repo): a scratch worktree can be checked instead (seed
# evaluation); it gets its own build directory and module file.  The commands
# registered in MANIFEST.json never set it.
R=${VERIF_REPO:-/repo}
MODFLAG=
if [ "$R" != /repo ]; then
  B=$V/.build/alt-$(echo -n "$R" | md5sum | cut -c1-10)
  mkdir -p $B
  sed "s#=> /repo\$#=> $R#" $V/mc/go.mod > $B/go.mod
  cp $V/mc/go.sum $B/go.sum
  MODFLAG="-modfile=$B/go.mod"
fi
mkdir -p $B/bin $B/overlay $B/overlay-shim
cd $V/mc || exit 2
if [ ! -x $B/bin/genoverlay ] || [ cmd/genoverlay/main.go -nt $B/bin/genoverlay ]; then
  go1.26.8 build $MODFLAG -o $B/bin/genoverlay ./cmd/genoverlay || exit 2
fi
$B/bin/genoverlay -repo $R -src $V/mc/overlaysrc -out $B/overlay || exit 2
$B/bin/genoverlay -repo $R -src $V/mc/overlaysrc -out $B/overlay-shim \
  -shim "${VERIF_SHIM_FILES:-faults/set.go,faults/description.go,actions/message-streamer.go,actions/http-push-streamer.go}" || exit 2
mode=${1:-plain}
if [ "$mode" = shim ]; then
  go1.26.8 test $MODFLAG -c -tags verif,verifshim -vet=off -overlay $B/overlay-shim/overlay.json -o $B/bin/checks-shim.test ./checks 2>&1 || exit 2
else
  go1.26.8 test $MODFLAG -c -tags verif -vet=off -overlay $B/overlay/overlay.json -o $B/bin/checks.test ./checks 2>&1 || exit 2
fi
