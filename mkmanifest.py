#!/usr/bin/env python3
"""Regenerates MANIFEST.json from the table below (kept in one place so that the
claimed / not_applicable split is always consistent with properties.jsonl)."""
import json
props=[json.loads(l)['id'] for l in open('/verif/properties.jsonl')]
HIST="explicit-state BFS over operation histories on the real code + SQLite under virtual time (testing/synctest), reference-model oracle on every transition, drain from every state"
def H(text, ref, note="SQLite backend only; gRPC handler objects driven in-process; depth bound per tier and scenario stated in the evidence; clock moves stay >=0.4s away from every deadline"):
    return dict(level="model_checking", engine="E1 HistoryMC", technique=HIST, text=text, note=note, ref=ref)
claimed={
 "C01": H("All operation histories up to the stated depth over three configurations (plain+filtered+prune jobs; dead-letter; lifecycle+seek+snapshot+retention) are executed on the real handlers. On every transition the reference model decides which deliveries must / may / must not be offered; a message the model holds outstanding must keep a live delivery row and must be returned once its lease lapsed; from EVERY visited state a drain (pull past every backoff, ack everything) must deliver everything still owed.", "§6 C01"),
 "C02": H("Histories over two topics / three to four subscriptions incl. dead-letter forwarding: every pull response is checked for membership (only deliveries owed to exactly that subscription), size <= max, no repeated ack id, and id / JSON value / attributes / ordering key equality with what Publish was given; acks, nacks, seeks and deletes of one subscription must leave the model's expectations for the others intact.", "§6 C02"),
 "C03": H("Histories with ack of oldest/all/stale/unknown/duplicate/mixed/foreign ids, modify-deadline and nack after ack, dead-letter sweeps, lease expiry: an acknowledged delivery must never be returned again and its row must never become live again; stale/unknown ids must not disturb any other delivery; drain from every state.", "§6 C03"),
 "C04": H("Per retry policy (absent, min only, max only, both, min>max) all histories of pull / modify-deadline (0, 5s, 60s) / nack / ack / clock moves to just before and just after each lease end: no redelivery before min(max,min*1.1^n), redelivery after it (+<1s jitter), delivery_attempt exactly n, positive deadlines only postpone, zero makes it due, nack reschedules by the backoff.", "§6 C04", note="SQLite only; concurrent pullers (schedule quantifier) are covered by the tx-level scheduler scenario when present in the evidence; saturation at maxBackoff is reached by the skeleton scenario"),
 "C05": H("Every operation history up to the stated depth over the ordered-delivery alphabet (keyed/un-keyed/batched publishes, pulls of size 1 and 10, acks in any order, nack, zero deadline, lease expiry) is executed on the real handlers; on every transition no message may be delivered while an earlier same-key message is outstanding, a deliverable message may not be held back by an unrelated one, and the drain from every state must deliver everything.", "§6 C05"),
 "C06": H("Dead-letter topologies (N=1,2,3; two DL subscribers one filtered; no subscriber; deleted DL topic; chain A->B->C with an ordered middle subscription) x all histories of pull / nack / zero deadline / ack / sweep / clock moves: never more than N deliveries on the source, retirement and forwarding happen in the same step, each live matching DL subscription receives the message exactly once with original id/payload/attributes, never after ack/expiry, never before N.", "§6 C06"),
 "C12": H("All create / delete / re-create / get / list histories over topics, subscriptions and snapshots in projects p, P, pp, p_, p% (and ids differing by case), every List walked with page sizes 1, 2 and 100: AlreadyExists on live names, NotFound on absent ones, re-created subscriptions inherit no backlog or settings, the union of all pages equals the live set of exactly that project.", "§6 C12", note="SQLite only; racing creates (schedule quantifier) are decided by the tx-level scheduler scenario when present in the evidence"),
 "C13": H("Histories of publish / pull / partial ack / snapshot (own and sibling subscription) / seek to snapshot / seek to time (before all, between messages, exactly a publish time, now, future) / further traffic: after each seek the model's expected backlog (unacked at snapshot + published since; or published after T) must be exactly what later pulls and the drain deliver.", "§6 C13"),
 "C14": H("Retention 40s/10min, TTL 2min/1h, delivery delay 20s (also on a dead-letter subscription): clock moves to 1.5s before / 0.5s after each retention end, TTL end and delay end; a message is never delivered after its retention or before its delay and always while retained and due; the expiry sweep deletes a subscription iff a full TTL passed without pull activity; an expired subscription behaves as deleted.", "§6 C14"),
 "C15": H("Histories with the seven maintenance jobs (min age 0 and 1h, batch 1 and 100) spliced in at every position: the client-visible oracles of C01-C06 must not notice them, live topics/subscriptions/outstanding deliveries must keep their rows; from EVERY visited state two convergence runs (delete everything / ack everything, +2h, jobs in a state-dependent order until a round reclaims nothing) must end with no failing job and no dead row.", "§6 C15"),
}
def E4(text, ref, note, tech, level="exploration", engine="E4 InputEnum"):
    return dict(level=level, engine=engine, technique=tech, text=text, note=note, ref=ref)
claimed.update({
 "C07": E4("Every filter AST of the enumerated shapes (1-3 terms, NOT / '-' on any term, AND / OR chains, parenthesised sub-conditions on either side; thorough: 4-chains and a 5-name vocabulary incl. unicode and keyword-like names) is rendered in up to three surface styles, parsed by the repository parser and evaluated on EVERY attribute map over the vocabulary, against an independent 30-line reference evaluator; the boolean laws are checked as implementation-vs-implementation pairs on the same enumeration; filters with up to 2 terms are also installed on real subscriptions and every attribute map is published once.", "§6 C07",
    "the cell `attributes.k != \"v\"` with k absent is a don't-care (three-valued reference); unbounded random/fuzzed filters are another technique and not claimed",
    "bounded-exhaustive enumeration of filter ASTs x attribute maps against an independent reference evaluator (no sampling)"),
 "C08": E4("Acceptance parity with a hand-written recogniser of the documented grammar on (i) every sequence of up to 5 (thorough 6) token classes joined three ways, (ii) grammar sentences with adversarial names/strings and every single-token deletion, swap, substitution and insertion; every accepted string is printed with AsFilter, re-parsed and compared (AST equality and agreement on all attribute maps); (iii) every byte string up to length 6 (7) over a 12-symbol alphabet is parsed in watchdogged worker processes (crash / hang / stack overflow); every rejected sentence variant is sent through CreateSubscription and UpdateSubscription(filter) and the tables are compared.", "§6 C08",
    "whitespace inside `!=` and keyword-spelled unquoted attribute names are don't-care for acceptance; bytes outside the enumerated alphabets are not covered",
    "bounded-exhaustive enumeration of token sequences / sentence mutations / byte strings against an independent recogniser"),
 "C16": E4("For each of the 25 Publisher/Subscriber RPCs the valid base request and every request deviating from it in at most 2 fields (each field over its boundary domain: names valid/unknown/other kind/empty/5 segments, integers min/-1/0/1/max, durations negative/zero/1ns/10^4 years/invalid nanos, nested messages absent/empty/populated, ack ids live/stale/foreign/garbage/empty, masks known/unknown/repeated/empty/nil, payloads JSON/non-JSON/empty/binary, timestamps year 1/epoch/9999/invalid) is sent over real TCP gRPC to a server SUBPROCESS built from grpc.NewGrpcService + services.InitializeGrpcServers (production interceptor chain). After every request: the process must be alive and answering, the call must carry a gRPC status, and an error status must leave the five tables unchanged.", "§6 C16",
    "deviation bound 2 per request (pairs of simultaneously odd fields); a failed Pull/StreamingPull may have refreshed expires_at / leased messages; real time, 300 ms deadline per request",
    "deviation-bounded exhaustive request enumeration against a live server subprocess; crash = process exit"),
 "C17": E4("Create->Get->List over the cross product of labels x retention x TTL x ordering x filter x retry policy x dead-letter policy x push endpoint (incl. 1 ns and 10-year durations); all 2^8 update-mask subsets x 3 value variants as first update followed by a second update (quick: single-path and full masks on a quarter of the pairs; thorough: all pairs) from two base configurations, each followed by Get and compared with 'exactly the masked fields changed' (every request carries values for ALL fields); Interval Value->Scan over a structured grid of durations incl. negatives and extremes; ParsePostgreSQLInterval on 10k generated PostgreSQL-style strings against a reference reading.", "§6 C17",
    "SQLite backend; PostgreSQL's rendering represented by generated strings in its default IntervalStyle; absent and zero optional durations compared as equal",
    "bounded-exhaustive configuration / update-sequence / duration enumeration against the harness's own expected-configuration record"),
})
claimed["C09"]=dict(level="fault_enumeration", engine="E3 FaultEnum", technique="exhaustive fault-point enumeration: operation x every BEGIN/statement/COMMIT index x {driver error, cancelled context} through a database/sql driver wrapper",
   text="35 mutating operations (publish single/batch, create/delete/update topic and subscription, ack, nack with and without dead-letter move, modify-deadline 0 / positive spanning two subscriptions, pull empty / with messages / redelivery / with dead-letter move, stream ack+nack in one transaction, seek to time and snapshot, create/delete snapshot, dead-letter sweep, each of the 7 maintenance jobs through the production runOnce), each from a prepared state: the k-th BEGIN / SQL statement / COMMIT fails for EVERY k, with a driver error and with the request context cancelled at that point. Each faulted run must return an error, leave all five tables identical, close no registered waiter channel; a fault-free retry must end in the tables of the fault-free run.",
   note="an injected COMMIT failure really rolls back (commit-outcome-unknown is not modelled); SQLite only; a failed Pull may keep its separate activity refresh", ref="§6 C09")
SCHED="stateless DFS over all interleavings of real goroutines at scheduler gates (controlled scheduler under testing/synctest), iterative preemption bound where stated"
claimed["C10"]=dict(level="model_checking", engine="E2 SchedMC", technique=SCHED+"; gates at transaction boundaries in the SQL driver wrapper",
   text="12 scenarios (publish to a topic with two subscriptions with the waiter on either or both; zero-deadline ModifyAckDeadline with ack ids spanning two subscriptions; ack of an ordered predecessor; nack that dead-letters an ordered predecessor; a pull / the sweep forwarding into the waiter's topic; a seek re-opening a message; two writers at once): ALL interleavings at transaction boundaries of the real blocking Pull (register, check, wait, re-register) with the real writers (commit, notify). Oracle at quiescence with ZERO virtual time elapsed: every waiter has returned its message, i.e. no wake-up was lost whatever the commit's position relative to the waiter's steps.",
   note="SQLite BEGIN IMMEDIATE serialises transactions, so transaction-boundary interleavings are complete for this backend; PostgreSQL statement-level interleavings are out of reach (no server); StreamingPull waiters are covered under C11", ref="§6 C10")
claimed["C18"]=dict(level="model_checking", engine="E2 SchedMC", technique=SCHED+"; gates at every lock acquisition, atomic operation and goroutine spawn via sync / sync/atomic shims",
   text="The real faults.Set (sync and sync/atomic rewritten onto scheduler shims by the overlay, `go s.prune()` routed through the scheduler): 2-4 concurrent Check callers (once or twice each), counts 1-3, matching / non-matching / overlapping descriptions, a concurrent Current() reader, a concurrent Add; every interleaving up to the stated preemption bound (unbounded for 2 callers). Oracle: exactly min(total count, matching calls) calls fail, non-matching calls never fail, Current() never lists an exhausted fault and the remaining counts add up. Plus all 729x2 (description params, call params) pairs of a 3-key domain and request-field extraction through the production unary interceptor.",
   note="sequentially consistent atomics assumed; data races on unsynchronised accesses would need the separate -race pass", ref="§6 C18")
pending_reason="not claimed yet in this session: check under construction (see DESIGN.md §6); no alarm is raised for it"
checks=[]
for p in props:
    if p in claimed:
        c=claimed[p]
        checks.append({
          "property_id":p,
          "quick_cmd":f"/verif/run {p} quick",
          "thorough_cmd":f"/verif/run {p} thorough",
          "evidence_file":f"/verif/evidence/{p}.json",
          "replay_cmd_template":f"VERIF_REPLAY={{path}} /verif/run {p} quick",
          "engine":c["engine"],
          "level_claimed":{"category":c["level"],"text":c["text"],"design_ref":c["ref"]},
          "level_note":c["note"],
          "technique":c["technique"],
        })
m={
 "version":1,
 "setup_cmd":"/verif/setup.sh",
 "hooks":{"guard":"verif","enable":"go1.26.8 test -c -tags verif -vet=off -overlay /verif/.build/overlay/overlay.json (overlay adds export files and sync-shim rewrites; /repo sources are never modified for instrumentation)",
          "baseline_off_cmd":"/verif/baseline.sh","source_commits":[],"add_only":True},
 "engines":[
  {"name":"E2 SchedMC","path":"/verif/mc/sched","serves_properties":["C04","C10","C12","C18"],"kind_free_text":"controlled cooperative scheduler for real goroutines (park at gates, synctest.Wait as settle detector) + stateless DFS with replayable choice prefixes and iterative preemption bounding"},
  {"name":"E3 FaultEnum","path":"/verif/mc/checks/c09_test.go","serves_properties":["C09"],"kind_free_text":"crash/fault point enumeration over the SQL statement stream of each operation (vsql driver wrapper)"},
  {"name":"E4 InputEnum","path":"/verif/mc/checks","serves_properties":[p for p in props if p in claimed and claimed[p]["engine"].startswith("E4")],"kind_free_text":"bounded-exhaustive input enumeration against independent references (filter evaluator / recogniser, expected-configuration record, live server subprocess)"},
  {"name":"E1 HistoryMC","path":"/verif/mc/hist","serves_properties":[p for p in props if p in claimed and claimed[p]["engine"].startswith("E1")],"kind_free_text":"explicit-state BFS over API histories executed on the real code; state = canonical table dump + model digest; 16 worker processes"},
 ],
 "checks":checks,
 "not_applicable":[{"property_id":p,"reason":pending_reason} for p in props if p not in claimed],
 "notes":"All checks rebuild from /repo's working tree via /verif/build.sh. Exit 2 = harness/build failure (no verdict).",
}
json.dump(m,open('/verif/MANIFEST.json','w'),indent=1)
print("claimed",len(checks),"not_applicable",len(m["not_applicable"]))
