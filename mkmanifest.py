#!/usr/bin/env python3
"""Regenerates MANIFEST.json from the table below (kept in one place so that the
claimed / not_applicable split is always consistent with properties.jsonl)."""
import json
props=[json.loads(l)['id'] for l in open('/verif/properties.jsonl')]
HIST="explicit-state BFS over operation histories on the real code + SQLite under virtual time (testing/synctest), reference-model oracle on every transition, drain from every state"
claimed={
 "C05": dict(level="model_checking", engine="E1 HistoryMC", technique=HIST,
   text="Every operation history up to the stated depth over the ordered-delivery alphabet (keyed/un-keyed/batched publishes, pulls of size 1 and 10, acks in any order, nack, zero deadline, lease expiry) is executed on the real handlers; on every transition no message may be delivered while an earlier same-key message is outstanding, and the drain from every state must deliver everything. Bounded exhaustive, so it covers every interleaving of publishes and acks the tests never chain.",
   note="SQLite backend; handlers in-process; depth bound per tier stated in evidence; batch publishes get distinct publish times through the 1µs/statement virtual tick", ref="§6 C05"),
}
pending_reason="not claimed yet in this session: check under construction (see DESIGN.md §6); no alarm is raised for it"
checks=[]
for p in props:
    if p in claimed:
        c=claimed[p]
        checks.append({
          "property_id":p,
          "quick_cmd":f"/verif/run {p} quick",
          "thorough_cmd":f"/verif/run {p} thorough",
          "evidence_file":f"/verif/evidence/{p}.json",
          "replay_cmd_template":f"VERIF_REPLAY={{path}} /verif/run {p} quick",
          "engine":c["engine"],
          "level_claimed":{"category":c["level"],"text":c["text"],"design_ref":c["ref"]},
          "level_note":c["note"],
          "technique":c["technique"],
        })
m={
 "version":1,
 "setup_cmd":"/verif/setup.sh",
 "hooks":{"guard":"verif","enable":"go1.26.8 test -c -tags verif -vet=off -overlay /verif/.build/overlay/overlay.json (overlay adds export files and sync-shim rewrites; /repo sources are never modified for instrumentation)",
          "baseline_off_cmd":"/verif/baseline.sh","source_commits":[],"add_only":True},
 "engines":[
  {"name":"E1 HistoryMC","path":"/verif/mc/hist","serves_properties":[p for p in props if p in claimed and claimed[p]["engine"].startswith("E1")],"kind_free_text":"explicit-state BFS over API histories executed on the real code; state = canonical table dump + model digest; 16 worker processes"},
 ],
 "checks":checks,
 "not_applicable":[{"property_id":p,"reason":pending_reason} for p in props if p not in claimed],
 "notes":"All checks rebuild from /repo's working tree via /verif/build.sh. Exit 2 = harness/build failure (no verdict).",
}
json.dump(m,open('/verif/MANIFEST.json','w'),indent=1)
print("claimed",len(checks),"not_applicable",len(m["not_applicable"]))
