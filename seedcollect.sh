#!/bin/bash
# usage: seedcollect.sh <worktree> <seed-id> <pkgdir-of-demo>
# Verifies a sub-agent's seeded change independently and stores it under /verif/seeded/<seed-id>/.
set -u
wt=$1; sid=$2; pkg=$3
export GOFLAGS=-mod=mod GOPROXY=off
cd $wt || exit 2
out=/verif/seeded/$sid; mkdir -p $out
git diff > $out/patch.diff
cp $pkg/zz_seeded_demo_test.go $out/zz_seeded_demo_test.go || exit 2
[ -s $out/patch.diff ] || { echo "empty patch"; exit 2; }
# 1. demo on original
# (no git stash: the stash is shared between worktrees)
git apply -R $out/patch.diff || { echo "cannot revert patch"; exit 2; }
go test -vet=off -count=1 -run TestSeededDemo ./$pkg/ >/dev/null 2>&1; rc1=$?
git apply $out/patch.diff || { echo "cannot re-apply patch"; exit 2; }
# 2. demo with change
go test -vet=off -count=1 -run TestSeededDemo ./$pkg/ >/dev/null 2>&1; rc2=$?
# 3. suite with change, demo skipped, compared with the baseline list
tmp=$(mktemp /dev/shm/seedsuite.XXXXXX)
go test -json -vet=off -count=1 -skip TestSeededDemo -timeout 25m ./... > $tmp 2>/dev/null
miss=$(python3 - "$tmp" <<'PY'
import json,sys
passed=set()
for l in open(sys.argv[1]):
    try: e=json.loads(l)
    except Exception: continue
    if e.get('Action')=='pass' and e.get('Test'): passed.add(e['Package']+'::'+e['Test'])
base=set(json.load(open('/root/.vp/BASELINE.json'))['stable_pass'])
m=sorted(base-passed)
print(len(m), ' '.join(m[:5]))
PY
)
rm -f $tmp
echo "SEEDCOLLECT $sid demo_on_original_exit=$rc1 demo_with_change_exit=$rc2 suite_missing=$miss"
