#!/bin/bash
# usage: seedwt.sh <worktree-with-seeded-change> <tier> <ID> [<ID> ...]
# Runs checks against a scratch worktree (VERIF_REPO) instead of /repo: nothing in /repo is
# touched, evidence and replays go to /verif/.build/alt-*/root.  Prints one line per check.
set -u
wt=$1; tier=$2; shift 2
V=$(cd "$(dirname "${BASH_SOURCE[0]}")" && pwd)
for id in "$@"; do
  out=$(VERIF_REPO=$wt $V/run $id $tier 2>&1); rc=$?
  n=$(echo "$out" | grep -c '^VIOLATION')
  first=$(echo "$out" | grep -A3 '^VIOLATION' | sed -n '2,4p' | tr '\n' ' ' | cut -c1-400)
  [ $rc -eq 2 ] && first=$(echo "$out" | tail -3 | tr '\n' ' ' | cut -c1-400)
  echo "SEEDWT $(basename $wt) check=$id tier=$tier exit=$rc violations_shown=$n :: $first"
done
